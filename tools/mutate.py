#!/usr/bin/env python3
"""Generates first-order mutants of the property-relevant sources of /repo (line-based, deterministic).
usage: mutate.py list <out.json>            all mutants (file, line, operator, before, after)
       mutate.py apply <tree> <out.json> <index>   applies mutant <index> to the tree at <tree>
The mutants are an adequacy probe for the checks in /verif (which quick check notices which change), not part of any verdict."""
import json, re, sys, os
FILES = ["src/crypto/core.rs", "src/crypto/init.rs", "src/crypto/common.rs", "src/crypto/rotate.rs", "src/table.rs", "src/cloud.rs",
         "src/messages.rs", "src/beacon.rs", "src/types.rs", "src/payload.rs", "src/config.rs", "src/util.rs"]
SKIP = re.compile(r'^\s*(//|#\[|use |pub use |mod |pub mod |extern )|debug!|info!|warn!|error!|trace!|assert|println!|eprintln!|unreachable!|fail!|try_fail!|write!\(|writeln!\(')

def excluded_lines(lines):
    """line indices inside #[cfg(test)] / #[cfg(dswd_vpncloud_verif)] items, test modules and bench code"""
    ex = set()
    i = 0
    n = len(lines)
    while i < n:
        l = lines[i]
        if re.match(r'\s*#\[cfg\((test|dswd_vpncloud_verif|feature = "bench")\)\]', l) or re.match(r'\s*#\[(test|bench)\]', l):
            # the item that follows: up to the matching brace, or the single statement
            j = i + 1
            depth = 0
            started = False
            while j < n:
                depth += lines[j].count('{') - lines[j].count('}')
                if '{' in lines[j]:
                    started = True
                ex.add(j)
                if (started and depth <= 0) or (not started and lines[j].rstrip().endswith(';')):
                    break
                j += 1
            ex.add(i)
            i = j + 1
            continue
        i += 1
    return ex

def mutants_of_line(l):
    out = []
    code = l.split('//')[0]
    def sub(op, pat, rep, count=1):
        m = re.search(pat, code)
        if m:
            out.append((op, code[:m.start()] + m.expand(rep) + code[m.end():]))
    sub('lt->le', r' < ', ' <= ')
    sub('le->lt', r' <= ', ' < ')
    sub('gt->ge', r' > ', ' >= ')
    sub('ge->gt', r' >= ', ' > ')
    sub('eq->ne', r' == ', ' != ')
    sub('ne->eq', r' != ', ' == ')
    sub('and->or', r' && ', ' || ')
    sub('or->and', r' \|\| ', ' && ')
    sub('plus->minus', r' \+ ', ' - ')
    sub('minus->plus', r' - ', ' + ')
    sub('pluseq->minuseq', r' \+= ', ' -= ')
    sub('not-removed', r'\bif !', 'if ')
    sub('true->false', r'\btrue\b', 'false')
    sub('false->true', r'\bfalse\b', 'true')
    m = re.search(r'(?<![\w\.\"#x])(\d+)(?![\w\.\"])', code)
    if m and not re.search(r'\[\w+; *\d+\]', code):
        v = int(m.group(1))
        out.append(('const+1', code[:m.start()] + str(v + 1) + code[m.end():]))
        if v > 0:
            out.append(('const-1', code[:m.start()] + str(v - 1) + code[m.end():]))
    s = code.strip()
    if s.endswith(';') and not re.match(r'(let |return|break|continue|pub |const |static |type |use |\}|\)|\])', s) and s.count('(') == s.count(')') and s.count('{') == s.count('}'):
        if re.match(r'[\w\.\[\]\*\(\)&]+ (=|\+=|-=|\|=|&=) .*;$', s) or re.match(r'[\w\.\[\]]+(\.\w+)*\(.*\)\??;$', s):
            out.append(('stmt-deleted', re.match(r'\s*', code).group(0) + '// (statement removed)'))
    return out

def generate(root):
    res = []
    for f in FILES:
        lines = open(os.path.join(root, f)).read().split('\n')
        ex = excluded_lines(lines)
        for i, l in enumerate(lines):
            if i in ex or SKIP.search(l) or not l.strip():
                continue
            for op, new in mutants_of_line(l):
                if new.rstrip() != l.split('//')[0].rstrip():
                    res.append({"file": f, "line": i + 1, "op": op, "before": l, "after": new.rstrip()})
    return res

if __name__ == '__main__':
    if sys.argv[1] == 'list':
        ms = generate('/repo')
        json.dump(ms, open(sys.argv[2], 'w'), indent=0)
        from collections import Counter
        print(len(ms), 'mutants', dict(Counter(m['file'] for m in ms)))
    elif sys.argv[1] == 'apply':
        tree, lst, idx = sys.argv[2], sys.argv[3], int(sys.argv[4])
        m = json.load(open(lst))[idx]
        p = os.path.join(tree, m['file'])
        lines = open(p).read().split('\n')
        assert lines[m['line'] - 1] == m['before'], 'tree differs from the list'
        lines[m['line'] - 1] = m['after']
        open(p, 'w').write('\n'.join(lines))
        print(json.dumps(m))
