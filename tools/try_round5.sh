#!/bin/bash
# usage: LANE=x try_round5.sh <id>...  - runs try_seeds3.sh on seeded/_unconfirmed5/<id> for each id (the id's own check)
V="$(cd "$(dirname "${BASH_SOURCE[0]}")/.." && pwd)"
for id in "$@"; do "$V/tools/try_seeds3.sh" _unconfirmed5 $id; done
