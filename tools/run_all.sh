#!/bin/bash
# usage: run_all.sh quick|thorough  - runs every registered check on the current /repo tree and validates the evidence files
TIER=${1:-quick}
V="$(cd "$(dirname "${BASH_SOURCE[0]}")/.." && pwd)"; cd "$V"; export V
[ -z "$(git -C /repo status --porcelain)" ] || { echo "/repo working tree not clean"; exit 2; }
./check --build || exit 2
fail=0
for id in $(python3 -c "import json;print(' '.join(c['property_id'] for c in json.load(open('MANIFEST.json'))['checks']))"); do
  start=$(date +%s)
  out=$(./check $id --tier $TIER 2>&1); rc=$?
  end=$(date +%s)
  echo "$id rc=$rc $((end-start))s $(echo "$out" | grep -E "HELD|VIOLATED|MACHINERY" | tail -1 | cut -c1-160)"
  echo "$out" | grep -E "^KNOWN-FINDING|^VIOLATION" | cut -c1-200
  [ $rc -ne 0 ] && fail=1
done
python3-vt - <<'PY'
import json,jsonschema,glob,os
sch=json.load(open('/root/.vp/EVIDENCE.schema.json'))
bad=0
for f in sorted(glob.glob(os.environ['V']+'/evidence/*.json')):
    try:
        jsonschema.validate(json.load(open(f)),sch)
    except Exception as e:
        bad+=1; print('INVALID',f,str(e)[:200])
print('evidence files valid' if not bad else f'{bad} invalid evidence files')
jsonschema.validate(json.load(open(os.environ['V']+'/MANIFEST.json')), json.load(open('/root/.vp/MANIFEST.schema.json')))
print('manifest valid')
PY
exit $fail
