#!/bin/bash
# For every repaired finding in known_findings.json: revert its fix in a scratch worktree (seeded/_regress/<id>/patch1.diff is the
# reverse diff of the fix commit) and run the quick check of its property: the violation must be reported again.
cd /verif
python3 - <<'PY'
import json,subprocess,os
for f in json.load(open('/verif/known_findings.json'))['findings']:
    if f.get('status')!='fixed': continue
    c=f['commit']; fid=f['id']
    os.makedirs(f'/verif/seeded/_regress/{fid}',exist_ok=True)
    diff=subprocess.run(['git','-C','/repo','diff',c,c+'~1','--','src'],capture_output=True,text=True).stdout
    open(f'/verif/seeded/_regress/{fid}/patch1.diff','w').write(diff)
PY
for d in seeded/_regress/*/; do
  f=$(basename $d)
  p=$(python3 -c "
import json
for f in json.load(open('/verif/known_findings.json'))['findings']:
    if f['id']=='$f': print(f['property'])")
  tools/try_seeds3.sh _regress $f $p 2>&1 | cut -c1-240
done
