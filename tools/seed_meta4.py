#!/usr/bin/env python3
"""Round 4: builds /verif/seeded/R2_<id>_<n>/ (patch.diff, demo.diff, NOTES.md, meta.json) from seeded/_unconfirmed4 and its CONFIRM.log."""
import json, os, re, shutil
HERE=os.path.dirname(os.path.dirname(os.path.abspath(__file__)))
U=os.path.join(HERE,'seeded','_unconfirmed4')
# key -> (what the change is, what it needs to manifest, which check / family reports it)
DESC={
 "R4_C01_1":("closing-state check hoisted above the signature verification in InitState::handle_init","a handshake machine in stage CLOSING (responder right after the peng) receives any forged datagram: accepted and echoed","C01 forged_object (receivers is_closing / is_timed_out, added for this seed)"),
 "R4_C01_2":("trusted-key lookup loses its break: only the last trusted key is honoured","two or more trusted keys, signer not the last one","C01 trust_graphs"),
 "R4_C01_3":("retransmissions recognised by their trailing signature bytes and answered unverified","receiver that already accepted the genuine message gets a copy with any bit before the signature flipped","C01 forged_object (awaiting_peng, flips)"),
 "R4_C02_1":("receive counter bookkeeping moved ahead of the tag check","altered datagram with a raised counter, two ticks, then genuine traffic","C02 core_pairs (window_moved)"),
 "R4_C03_1":("core tick only once the handshake state is gone (initiator's first 60 s)","replay to the initiator within 60 housekeeping rounds of the handshake","C03 lifetime_replays"),
 "R4_C03_2":("stale swap value in update_min_nonce: the window reopens on every other idle tick","accepted datagram, then 3, 5, 7.. idle ticks, then replay","C03 lifetime_replays / window model"),
 "R4_C04_1":("word-wise nonce increment with the carry tested on the wrong value","send counter crossing a 2^32 boundary of its low word","C04 increment_boundaries"),
 "R4_C05_1":("failed payload decryption downgraded from fatal to recoverable: the half-consumed handshake survives","stale pong of a previous attempt reaches the second attempt twice (panic)","C05 node_schedules (panic); also C08 signed_replays"),
 "R4_C05_2":("handshake messages from the address of an established peer always go to that peer's crypto object","peer forgot us and re-dials while our entry (without handshake state) is alive: deaf until our peer timeout","C05 node_deviations since round 5 (one-shot dial towards a node with a 60 s peer timeout: one direction never comes back); with default settings the outage heals within the stated bound; also C02 superseded_connection, C12 node_scenarios"),
 "R4_C05_3":("pending handshake next to an established peer does not retransmit","re-dial by a known peer with the peng lost: both sides 'connected' with different keys until the old entry times out","NOT a violation of C05 as stated (heals within peer timeout + retry horizon, as its author notes); no check reports it"),
 "R4_C06_1":("tie of the minima broken by the node's OWN speed","exact tie of min(speed) with crossed speeds at the two ends","C06 pairs"),
 "R4_C06_2":("cipher rank taken from the key length (aes256 = chacha20)","tie between aes256 and chacha20 with different list orders","C06 pairs"),
 "R4_C06_3":("speeds within 5 % treated as a tie","close but unequal speeds; a chain 100 / 104 / 108.5 with different list orders","C06 speed_magnitudes"),
 "R4_C07_1":("a newly installed receive key wipes the slot two ids back","second rotation of a direction with the rotation message delayed while the peer still seals with the previous key","C07 rotation search (stranded)"),
 "R4_C07_2":("the key kept for re-confirmation is the proposal instead of the confirmation","loss of a rotation message carrying a confirmation, then the re-sent copy is accepted","C07 rotation search (stranded; needed the explorer fix: violations take precedence over the dedup audit)"),
 "R4_C07_3":("rotation messages transmitted only when the cycle also returned a key","one lost rotation message: re-sends are never transmitted, keys never change again","C07 fair extension (stale_key)"),
 "R4_C08_1":("payload part of a handshake message read into a buffer with headroom","part length 0xfff8..0xffff behind a valid key-hash prefix (panic before the signature check)","C08 datagram"),
 "R4_C08_2":("recoverable parse errors before the signature check leave a pending handshake behind","genuine handshake message with a corrupted stage / node-id length field from an unknown sender","C08 datagram (state_left_behind)"),
 "R4_C08_3":("'invalid signature' classified as fatal: tears down the pending handshake of the spoofed address","damaged genuine handshake datagram from the address of a half-open handshake","C08 datagram (state_left_behind, pending_initiator)"),
 "R4_C09_1":("concurrent-connect tie-break also fires during the initiator's 60 s linger","ping of a THIRD node with a higher hash replayed to the initiator within 60 s, claiming the peer's address; the peer is dropped and re-dialled 121 s later within one second","C09 reinjection (scenario three_rev + oracle redialled, both added for this seed)"),
 "R4_C09_2":("route clean-up shared between failed pending handshakes and failed peers","verbatim ping replay after the linger: 120 s later the healthy peer's claims are wiped","C09 reinjection (packet_lost)"),
 "R4_C09_3":("signature read into a fixed 64-byte array sliced by the length byte","captured handshake datagram with the signature-length byte set above 64 (panic)","C09 reinjection (handshake field edits, added for this seed); also C08, C16"),
 "R4_C10_1":("derived PartialEq/Hash on Address (compares the bytes behind len)","priority-tagged frame leaves two MAC bytes behind: same MAC, different table key, unicast becomes flood","C10 isolation_switch / isolation_normal_tap"),
 "R4_C10_2":("claims with prefix length 0 can no longer be selected","a gateway claiming 0.0.0.0/0 and a destination no longer claim covers","C10 isolation_router_default_route (added for this seed); C11 table search"),
 "R4_C10_3":("flattened (mode, device) match: router mode on a tap device learns and floods","mode router with device type tap","C10 mode_matrix (added for this seed)"),
 "R4_C11_1":("Range::matches on one 128-bit word loses the clamp to the address length","over-long prefix and an address equal to the base","C11 prefix_match"),
 "R4_C11_2":("table sweep at most once per second","withdrawal or disconnect as the second table event of a second, lookup before the next tick","C11 table search"),
 "R4_C11_3":("flattened (device, mode) match: switch or hub mode on a tun device drops unknown destinations","mode switch/hub with device type tun","C11 mode_matrix (added for this seed)"),
 "R4_C12_1":("table purge throttled to once per second","two table events in one second, the later a removal","C12 announcement_sequences"),
 "R4_C12_2":("cache invalidation narrowed to the last withdrawn claim","one announcement dropping two or more claims with decisions cached from the earlier ones","C12 announcement_sequences"),
 "R4_C12_3":("remove_claims dropped on the peer-timeout path","learning mode, data frame after the last node info, then silence past the peer timeout","C12 / C13 Drop(node); C15 silence_learned_routes"),
 "R4_C13_1":("a cache hit restarts the entry's timeout","traffic TO a silent station before its entry expires","C13 learning_switch_station"),
 "R4_C13_2":("ClaimTable::cache via the entry API updates the timeout but not the peer","station seen from another peer within one switch timeout","C13 learning_switch"),
 "R4_C13_3":("remove_claims dropped on the peer-timeout path (iterator rewrite)","silent disconnect while learned entries are fresh","C13 Drop(node)"),
 "R4_C14_1":("the seen address of a peer is no longer recorded when it announces addresses","node reached through a forwarded port it does not announce","C14 self_dial (alias_not_adopted), multi_homed"),
 "R4_C14_2":("connect stops after the first address that could be sent to","peer entry whose first address is unreachable for the learner (forwarded port, NAT)","C14 multi_homed (added for this seed)"),
 "R4_C14_3":("address lists truncated to 8 instead of 7 per family","node with 8 or more addresses of one family (advertise-addresses)","C14 multi_homed (added for this seed); C16 round trip"),
 "R4_C15_1":("remove_claims purges the cache only if the peer had a claim","learning mode, peer without claims times out","C15 silence_learned_routes (added for this seed); C12, C13"),
 "R4_C15_2":("expiry scan moved inside the announcement block","silence observed at one-second resolution","C15 silence"),
 "R4_C15_3":(">= instead of > in the reconnect schedule: 3601 s between attempts","48 h with an unreachable configured peer, exact start-to-start measurement","C15 backoff_48h"),
 "R4_C16_1":("signature borrowed from the input slice","decoder given exactly the message bytes, truncated inside the signature","C16 malformed"),
 "R4_C16_2":("invalid claims logged and skipped: decode loop spins on a truncated claims part","claims part declared longer than the bytes present","C16 malformed (watchdog)"),
 "R4_C16_3":("prefixes longer than the address rejected by the decoder","claim with prefix > 8 x address length","C16 node_info_roundtrip"),
 "R4_C17_1":("lost underflow guard in the beacon length-structure check","garbage body between correct markers passing the one-byte seed check","C17 texts / shapes"),
 "R4_C17_2":("first padding whose seed matches wins","masked body starting with a zero byte whose unpadded form also passes the seed check (1 in 65536 hours)","C17 hours"),
 "R4_C17_3":("age check via cmp::min with >=: boundary becomes exclusive","age exactly equal to the limit; limit 0","C17 age"),
 "R4_C18_1":("password key derivation memoised per process","two passwords in one process","C18 password_pairs"),
 "R4_C18_2":("one scratch array reused across the trusted-key list","trusted-key list with a later entry whose public key starts with a zero byte","C18 passwords (trusted_in_list, added for this seed)"),
 "R4_C18_3":("key generation avoids a leading zero byte in the private key","password whose PBKDF2 seed starts with a zero byte (p986)","C18 passwords"),
 "R4_C19_1":("destination shift moved below the VLAN-0 early return","priority-tagged frame","C19 lengths / tag control"),
 "R4_C19_2":("missing ethertype treated as 'not VLAN'","frame of exactly 12 or 13 bytes","C19 lengths"),
 "R4_C19_3":("merged IPv4/IPv6 arms let version 5 through as IPv6","first byte 0x50..0x5f, length >= 40","C19 lengths / version nibbles"),
 "R4_C20_1":("auto_claim = !no_auto_claim: the file's value is lost","auto-claim: false in the file, no flag","C20 per_option / all_options"),
 "R4_C20_2":("algorithms appended instead of replaced","algorithms in both sources","C20 per_option / all_options"),
 "R4_C20_3":("peers.dedup() in into_config_file","the same peer adjacent twice (file + command line)","C20 round trip (same-value variant, added for this seed)"),
}
def main():
    log=open(os.path.join(U,'CONFIRM.log')).read()
    res={}
    for m in re.finditer(r'RESULT (R4_C\d+_\d) (.*)',log):
        res[m.group(1)]=m.group(2)   # later lines (re-runs) win
    made=0
    for key,(breaks,needs,det) in sorted(DESC.items()):
        _,pid,n=key.split('_')
        src=os.path.join(U,pid)
        patch=os.path.join(src,f'patch{n}.rebased.diff')
        rebased=os.path.exists(patch)
        if not rebased: patch=os.path.join(src,f'patch{n}.diff')
        demo=os.path.join(src,f'demo{n}.diff')
        if os.path.exists(os.path.join(src,f'demo{n}.rebased.diff')): demo=os.path.join(src,f'demo{n}.rebased.diff')
        if not os.path.exists(patch): print('no patch',key); continue
        r=res.get(key,'')
        ok=('a_suite_with_patch=ok' in r and 'b_demo_with_patch=fails' in r and 'c_demo_without_patch=passes' in r)
        if not ok:
            print('not confirmed:',key,r[:120]); continue
        dst=os.path.join(HERE,'seeded',key)
        os.makedirs(dst,exist_ok=True)
        shutil.copy(patch,os.path.join(dst,'patch.diff'))
        if os.path.exists(demo): shutil.copy(demo,os.path.join(dst,'demo.diff'))
        notes=os.path.join(src,'NOTES.md')
        if os.path.exists(notes): shutil.copy(notes,os.path.join(dst,'NOTES.md'))
        meta={"property":pid,"seed":key,"breaks":breaks,"needs_to_manifest":needs,
              "origin":"fourth-round independent sub-agent: saw only the property text, the list of earlier ideas to avoid and a scratch worktree of the repaired tree without the verification hooks",
              "rebased_onto_hooks":rebased,
              "confirmed":{"worktree":"scratch worktree of /repo HEAD under /tmp (removed afterwards)","suite_with_patch":"71 passed (beacon::encode_decode_cmd re-run alone when it flaked under load)","demo_with_patch":"fails","demo_without_patch":"passes","tool":"tools/confirm_seed.sh"},
              "detected_by":f"./check {pid} --tier quick: {det} (see seeded/LOG.md)"}
        json.dump(meta,open(os.path.join(dst,'meta.json'),'w'),indent=1)
        made+=1
    print('wrote',made,'seed directories')
if __name__=='__main__': main()
