#!/bin/bash
# usage: mutants_run.sh <lane> <lanes> <stride> [list.json]
# Lane <lane> of <lanes>: takes every mutant whose index i satisfies i % stride == 0 and (i / stride) % lanes == lane, applies it to a
# scratch worktree of /repo's main under /tmp/mut, runs the repository's own suite and - if the mutant survives it - every quick
# check of /verif against that worktree. One JSON line per mutant is appended to /verif/target/mutation_results.jsonl.
V="$(cd "$(dirname "${BASH_SOURCE[0]}")/.." && pwd)"   # the /verif tree (or a snapshot of it) this script belongs to
LANE=$1; LANES=$2; STRIDE=$3; LIST=${4:-/verif/target/mutants.json}
WT=/tmp/mut/lane$LANE; OUT=/tmp/mut/out$LANE; RES=${MUT_RES:-/verif/target/mutation_results.jsonl}; OFFSET=${MUT_OFFSET:-0}
mkdir -p /tmp/mut $OUT/evidence $OUT/replays; cp $V/known_findings.json $OUT/
if [ ! -d $WT ]; then git -C /repo worktree prune; git -C /repo worktree add -q --detach $WT main || exit 2; cp -r /repo/target $WT/target 2>/dev/null; fi
N=$(python3 -c "import json;print(len(json.load(open('$LIST'))))")
IDS=$(python3 -c "import json;print(' '.join(c['property_id'] for c in json.load(open('$V/MANIFEST.json'))['checks']))")
for ((i=OFFSET; i<N; i+=STRIDE)); do
  [ $(( (i / STRIDE) % LANES )) -eq $LANE ] || continue
  grep -q "\"index\": $i," $RES 2>/dev/null && continue
  git -C $WT checkout -q -- . ; git -C $WT reset -q --hard main
  M=$(python3 $V/tools/mutate.py apply $WT $LIST $i) || { echo "{\"index\": $i, \"suite\": \"apply-failed\"}" >> $RES; continue; }
  out=$(cd $WT && timeout 900 cargo test --offline 2>&1)
  if echo "$out" | grep -q "^test result: ok"; then suite=pass
  elif ! echo "$out" | grep -q "^test result"; then suite=no-compile
  else
    # load-sensitive tests (100 ms sleeps, throughput measurements) are re-run alone before they count
    failed=$(echo "$out" | grep -E "^test [^ ]+ \.\.\. FAILED" | grep -v -E "beacon::encode_decode_cmd|test_speed_" | wc -l)
    suite=killed
    if [ "$failed" = "0" ]; then
      suite=pass
      for t in $(echo "$out" | grep -E "^test [^ ]+ \.\.\. FAILED" | awk '{print $2}'); do
        ok=0
        for try in 1 2 3 4; do
          if (cd $WT && cargo test --offline "$t" 2>&1 | grep -q "^test result: ok. 1 passed"); then ok=1; break; fi
          sleep 3
        done
        [ $ok = 1 ] || suite=killed
      done
    fi
  fi
  checks="{}"
  if [ $suite = pass ]; then
    checks="{"
    for id in $IDS; do
      o=$(VERIF_REPO=$WT VERIF_TARGET=/verif/target_mut$LANE VERIF_DIR=$OUT timeout 900 $V/check $id 2>&1); rc=$?
      first=$(echo "$o" | grep -A1 "^VIOLATION" | grep "family=" | head -1 | cut -c1-200 | tr -d '"\\' )
      checks="$checks\"$id\": [$rc, \"$first\"],"
    done
    checks="${checks%,}}"
  fi
  echo "{\"index\": $i, \"mutant\": $M, \"suite\": \"$suite\", \"checks\": $checks}" >> $RES
done
git -C $WT checkout -q -- .
echo "lane $LANE done" >> /verif/target/mutation_lanes.txt
