#!/bin/bash
# usage: LANE=<name> regress_seeds.sh <lane-index> <lanes>
# Re-tries every filed seeded change (seeded/<name>/patch.diff with meta.json) against the quick check of its own property with the
# harness of THIS tree, in a scratch worktree of /repo (see try_seeds3.sh). One line per seed.
V="$(cd "$(dirname "${BASH_SOURCE[0]}")/.." && pwd)"; cd "$V"
I=$1; N=$2; k=0
for m in seeded/*/meta.json; do
  d=$(dirname $m); name=$(basename $d)
  k=$((k+1)); [ $((k % N)) -eq $I ] || continue
  prop=$(python3 -c "import json;print(json.load(open('$m'))['property'])")
  "$V/tools/try_seeds3.sh" . $name $prop 2>&1 | cut -c1-260
done
echo "lane $I done"
