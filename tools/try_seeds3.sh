#!/bin/bash
# usage: try_seeds3.sh <round-dir> <id> [checks...]
# Applies every seeded/<round-dir>/<id>/patch*.diff in turn to a SCRATCH worktree of /repo's main (not to /repo itself, so
# checks running elsewhere are not disturbed), runs the quick checks against it with a separate target and output directory.
RD="$1"; ID="$2"; shift; shift; CHECKS="${@:-$ID}"
V="$(cd "$(dirname "${BASH_SOURCE[0]}")/.." && pwd)"; cd "$V"
L=${LANE:-}; WT=/tmp/seedrepo$L; OUT=/tmp/seedverif$L
if [ ! -d $WT ]; then git -C /repo worktree prune; git -C /repo worktree add -q --detach $WT main || exit 2; fi
git -C $WT checkout -q --detach main && git -C $WT reset -q --hard main
mkdir -p $OUT/evidence $OUT/replays; cp $V/known_findings.json $OUT/
export VERIF_REPO=$WT VERIF_TARGET=/verif/target_seed$L VERIF_DIR=$OUT
for p in seeded/$RD/$ID/patch*.diff; do
  [ -f "$p" ] || continue
  case "$p" in *.rebased.diff) continue;; esac
  q="${p%.diff}.rebased.diff"; [ -f "$q" ] && p="$q"
  if ! (cd $WT && git apply -3 "$V/$p" >/dev/null 2>&1); then echo "$p: DOES-NOT-APPLY"; git -C $WT reset -q --hard main; continue; fi
  for c in $CHECKS; do
    out=$(./check $c 2>&1); rc=$?
    nviol=$(echo "$out" | grep -c "^VIOLATION")
    first=$(echo "$out" | grep -A1 "^VIOLATION" | grep "family=" | head -1 | cut -c1-260)
    if [ $rc -eq 1 ]; then echo "$p: check $c DETECTED ($nviol groups) $first"; elif [ $rc -eq 0 ]; then echo "$p: check $c MISSED"; else echo "$p: check $c MACHINERY rc=$rc $(echo "$out" | grep -E 'MACHINERY|error' | head -2)"; fi
  done
  git -C $WT reset -q --hard main
done
