#!/bin/bash
# usage: confirm_seed.sh <name> <patch.diff> <demo.diff> [test-filter]
# Confirms, in a scratch worktree of /repo HEAD (outside /repo and /verif, removed afterwards):
#  (a) existing suite passes with the patch, (b) the demonstration fails with the patch, (c) it passes without.
# Prints one RESULT line.
set -u
NAME="$1"; PATCH="$(realpath "$2")"; DEMO="$(realpath "$3")"; FILTER="${4:-demo}"
WT="/tmp/confirm_$NAME"
rm -rf "$WT"; git -C /repo worktree prune
git -C /repo worktree add --detach "$WT" HEAD >/dev/null 2>&1 || { echo "RESULT $NAME worktree-failed"; exit 2; }
cp -r /repo/target "$WT/target" 2>/dev/null
cd "$WT"
suite() { # runs whole suite; tolerates the load-flaky beacon test (100 ms sleeps) if it passes alone in one of 6 tries
  out=$(cargo test --offline 2>&1);
  if echo "$out" | grep -q "^test result: ok"; then echo ok; return; fi
  failed=$(echo "$out" | grep -E "^test [^ ]+ \.\.\. FAILED" | grep -v "beacon::encode_decode_cmd" | wc -l)
  compiled=$(echo "$out" | grep -c "^test result")
  if [ "$compiled" = "0" ]; then echo "compile-error"; return; fi
  if [ "$failed" != "0" ]; then echo "failed: $(echo "$out" | grep -E '^test .* FAILED' | head -3 | tr '\n' ' ')"; return; fi
  for i in 1 2 3 4 5 6; do
    if cargo test --offline encode_decode_cmd 2>&1 | grep -q "^test result: ok"; then echo ok; return; fi
    sleep 2
  done
  echo "failed: only beacon::encode_decode_cmd (timing test), also alone"
}
A="?"; B="?"; C="?"
git apply "$PATCH" 2>/dev/null || git apply -3 "$PATCH" 2>/dev/null || { echo "RESULT $NAME patch-does-not-apply"; cd /; git -C /repo worktree remove --force "$WT"; exit 1; }
A=$(suite)
git apply "$DEMO" 2>/dev/null || git apply -3 "$DEMO" 2>/dev/null || { echo "RESULT $NAME demo-does-not-apply a=$A"; cd /; git -C /repo worktree remove --force "$WT"; exit 1; }
out=$(cargo test --offline "$FILTER" 2>&1)
if echo "$out" | grep -qE "^test result: FAILED"; then B="fails"; elif echo "$out" | grep -qE "^test result: ok. [1-9]"; then B="passes(!)"; else B="no-tests-or-compile-error"; fi
BMSG=$(echo "$out" | grep -E "panicked at|assertion" | head -2 | tr '\n' ' ' | cut -c1-300)
# back to the unmodified tree, demonstration only
git checkout -q -- . && git clean -fdq src && git reset -q && git checkout -q -- .
git apply "$DEMO" 2>/dev/null || git apply -3 "$DEMO" || echo "demo does not re-apply"
out=$(cargo test --offline "$FILTER" 2>&1)
if echo "$out" | grep -qE "^test result: ok. [1-9]" && ! echo "$out" | grep -qE "^test result: FAILED"; then C="passes"; else C="fails(!)"; fi
cd /; git -C /repo worktree remove --force "$WT"
echo "RESULT $NAME a_suite_with_patch=$A b_demo_with_patch=$B c_demo_without_patch=$C :: $BMSG"
