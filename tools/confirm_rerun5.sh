#!/bin/bash
# re-runs the round-4 confirmation for every seed whose last RESULT is not (ok, fails, passes)
cd /verif
LOG=seeded/_unconfirmed5/CONFIRM.log
for d in seeded/_unconfirmed5/C*/; do
  id=$(basename $d)
  for p in $d/patch[0-9].diff; do
    n=$(basename $p .diff | sed 's/patch//')
    last=$(grep "^RESULT R5_${id}_$n " $LOG | tail -1)
    if echo "$last" | grep -q "a_suite_with_patch=ok b_demo_with_patch=fails c_demo_without_patch=passes"; then continue; fi
    demo="$d/demo$n.diff"; [ -f "$demo" ] || continue
    [ -f "$d/patch$n.rebased.diff" ] && p="$d/patch$n.rebased.diff"
    [ -f "$d/demo$n.rebased.diff" ] && demo="$d/demo$n.rebased.diff"
    tools/confirm_seed.sh "R5_${id}_$n" "$p" "$demo" "demo_" >> $LOG 2>&1
  done
done
echo DONE-RERUN >> $LOG
