#!/usr/bin/env python3
"""Round 5: builds /verif/seeded/R2_<id>_<n>/ (patch.diff, demo.diff, NOTES.md, meta.json) from seeded/_unconfirmed5 and its CONFIRM.log."""
import json, os, re, shutil
HERE=os.path.dirname(os.path.dirname(os.path.abspath(__file__)))
U=os.path.join(HERE,'seeded','_unconfirmed5')
# key -> (what the change is, what it needs to manifest, which check / family reports it)
DESC={
 "R5_C01_1":("an unknown key hash falls through to the signature check against an all-zero key","well-formed message with an unknown key hash and a degenerate signature (R = small-order point, S = 0): verifies for about one message in four without any key","C01 forged_object (degenerate signatures, added for this seed)"),
 "R5_C01_2":("handshake state taken out and not restored on the error path","a rejected handshake datagram while a handshake is in progress, then the genuine continuation","C01 forged_node (state_left_behind)"),
 "R5_C01_3":("password wins over an explicit private key when both are configured","both options set (file + command line)","NOT judged a violation of C01: the node trusts a key its user configured; which of two configured identities wins is not stated anywhere (its author calls it the weakest of the three)"),
 "R5_C06_1":("received speeds filtered with f32::is_normal (drops 0.0)","a cipher measured at exactly 0 on one side","C06 pairs"),
 "R5_C06_2":("duplicate suppression assumes ascending cipher ids","configured order that is not ascending","C06 pairs"),
 "R5_C06_3":("bounded search skips a cipher whose own speed equals the current best","tie on the slower side at the node's own speed","C06 pairs"),
 "R5_C08_1":("signature sliced out of the input without a length check","datagram filling the receive buffer so that the signature would lie behind its end","C08 datagram (buffer-filling handshake datagrams, added for this seed)"),
 "R5_C08_2":("missing crypto core treated as 'unencrypted'","non-handshake datagram from an address with a pending handshake","C08 datagram (interface_write)"),
 "R5_C08_3":("peer liveness refreshed before authentication","noise from a silent peer's address","C08 datagram (state_left_behind)"),
 "R5_C16_1":("own addresses encoded through the logging helper (un-mapped form)","own address list with an IPv4-mapped or IPv4-compatible IPv6 address","C16 node_info_roundtrip (such addresses added to the generator for this seed)"),
 "R5_C16_2":("rotation codec omits / tolerates the missing confirmation length byte","message without confirmation followed by stale bytes in the buffer","C16 rotation_roundtrip (stale bytes behind the message, added for this seed)"),
 "R5_C16_3":("algorithm ids looked up in a table without the catch-all","algorithm id 4 or higher behind a valid key hash","C16 malformed"),
 "R5_C17_1":("IPv4-mapped IPv6 entries written in the short IPv4 form","address list with ::ffff:a.b.c.d","C17 shapes (mapped and compatible addresses added for this seed)"),
 "R5_C17_2":("age check via saturating_abs of a signed distance","age 32768 with ttl 32767","C17 age"),
 "R5_C17_3":("base62 predicate uses char::is_numeric","non-ASCII numeric character between the markers (panic)","C17 texts (such characters added for this seed)"),
 "R5_C18_1":("keys printed with fixed width and compared as text","generated pair with a numerically small public key, configured as private + public key","C18 passwords"),
 "R5_C18_2":("trusted-key list deduplicated, own key counted as duplicate","own public key listed next to a foreign one","C18 passwords (own_key_in_trusted_list, added for this seed)"),
 "R5_C18_3":("node-side password derivation trims whitespace","password with leading or trailing whitespace","C18 password_pairs"),
 "R5_C19_1":("truncated VLAN tag accepted (zero-padded header copy)","tagged frame of exactly 15 bytes","C19 lengths"),
 "R5_C19_2":("ethertype 0x88a8 accepted as a VLAN tag","that one ethertype","C19 ethertypes"),
 "R5_C19_3":("tag-control mask 0x1fff","DEI bit set","C19 address_bytes"),
 "R5_C20_1":("per-event hook split at every colon","hook script containing a colon","C20 all_options (such scripts added for this seed)"),
 "R5_C20_2":("--private-key wipes the public key","private and public key together","C20 pairwise"),
 "R5_C20_3":("legacy (version 1) file conversion: port beats listen","old-format file with both listen and port","NOT covered by C20 as stated (the statement combines defaults, the current file format and the command line; the legacy conversion is not part of it); no check reports it"),
 "R5_C02_1":("the initiator keeps its handshake state for 1 s instead of 60 s","peng and its first repetition lost, then a reliable network: the responder's pong repetitions are no longer answered; both ends recover only after the initiator's peer timeout","NOT a violation of C02 as stated (no payload is altered, unsealed or misdelivered; the outage ends within C05's recovery bound, so C05 is silent too)"),
 "R5_C02_2":("a repeated unconfirmed rotation proposal gets a fresh ECDH key pair","exactly the rotation message carrying the confirmation is lost, two more intervals","reported by C07 (stranded) and C05 node_deviations (payload_lost), whose statements it violates; C02 itself is silent"),
 "R5_C02_3":("broadcast copies into the scratch buffer without resetting its start: 9 bytes of headroom lost per sealed peer","a node with 12 or more sealed peers broadcasts (panic in CryptoCore::encrypt)","C02 large_mesh_delivery / C10 large_mesh (added for this seed)"),
 "R5_C03_1":("seen_nonce redefined as 'first nonce not seen' with the comparison left unchanged","two datagrams in order, two ticks, replay of the second","C03 window model / lifetime_replays"),
 "R5_C03_2":("the 'last seen' bookkeeping lands on the SENDING slot","replay after the first key rotation (receive slot differs from send slot)","C03 lifetime_replays (needed the machinery fix: a nondeterministic family no longer pre-empts confirmed violations)"),
 "R5_C04_1":("encrypt restarts the send counter at a fresh random value when it no longer fits 56 bits","counter at the 56-bit limit","C04 limit_56bit"),
 "R5_C04_2":("key id written into nonce byte 4 on both ends","counter crossing 2^56: values c and c + 2^56 sealed with the identical nonce","C04 lifetimes (seal log now records the nonce handed to the AEAD)"),
 "R5_C05_1":("peer expiry uses min(own, advertised) timeout","dialled node with a 60 s peer timeout, peng lost, one-way loss for 62 s, no reconnect list: the re-dial meets the stale responder and gives up for good","C05 node_deviations (variant unconfigured_t60 + one-way loss, added for this seed)"),
 "R5_C05_2":("'invalid stage as first message' no longer fatal: stray pongs park an idle pending entry that blocks the re-dial","one-way loss, a late delayed pong, then the peer timeout fires while the idle entry exists","C05 node_deviations (one-shot dials + timed holds, added for this seed)"),
 "R5_C07_1":("confirmed key taken instead of cloned in the re-send branch","a rotation message and its first repetition lost","C07 search (stale_key)"),
 "R5_C07_2":("current_key = max(current_key, id): the slot index wraps","five delivered rotation messages, then message 6 delayed","C07 rotation_fifo_deep (added for this seed)"),
 "R5_C07_3":("a repetition takes the next message id","loss of a rotation message with id >= 2, two cycles, delivery of the repetition","C07 search (stranded)"),
 "R5_C09_1":("core tick is the else-branch of the handshake tick","data datagram replayed to the initiator within its 60 s linger","C09 reinjection (late_replay_delivered)"),
 "R5_C09_2":("accepting a ping from an established peer's address caps that peer's lifetime to the node's own announcement interval","victim configured with keepalive 10; verbatim ping replay","C09 scenario two_keepalive10 (added for this seed)"),
 "R5_C09_3":("a fatal handshake error flushes the learnt-address cache","switch mode; replayed pong/peng or the pongs a replayed ping provokes","C09 switch_reinjection (added for this seed)"),
 "R5_C10_1":("remove_claims walks the cache only if a claim was removed","learning mode, claim-less peer leaves","C10 isolation_* (learned_from_departed_peer)"),
 "R5_C10_2":("early exit of the longest-prefix scan compares prefix bits with address bytes","nested claims of different peers, wider one first","C10 isolation_router"),
 "R5_C10_3":("ClaimTable::new called with the two timeouts swapped","switch timeout different from peer timeout","C10 / C13 table_differs"),
 "R5_C11_1":("remove_claims dropped on the peer-timeout path (retain rewrite)","learned decision of a peer that times out","C11 peer_timeout_learned_decisions (added for this seed)"),
 "R5_C11_2":("prefix length 0 matches before the address-length check","a /0 claim of one family and an address of another","C11 prefix_match"),
 "R5_C11_3":("a cache hit refreshes the entry","a better claim appears while lookups keep the old decision alive past the switch timeout (7 operations)","C11 table_ipv4_narrow (added for this seed)"),
 "R5_C12_1":("de-duplication of announced ranges ignores the owner","two peers sharing a range","C12 announcement_sequences"),
 "R5_C12_2":("add_new_peer appends claims instead of replacing them","restart on the same address with other claims inside the peer timeout","C12 node_scenarios (restart)"),
 "R5_C12_3":("an expired slot takes over a new range without invalidating cached decisions","announcement that replaces a range","C12 announcement_sequences (stale_route)"),
 "R5_C13_1":("flattened (mode, device) match: router on tap learns","mode router with device type tap","C13 mode_matrix"),
 "R5_C13_2":("derived PartialEq/Hash on Address","priority-tagged frame and the same station untagged","C13 learning_*"),
 "R5_C13_3":("periodic table sweep only every 10 s","default peer timeout (no announcement every second), expiry between two sweeps","C13 learning_switch_quiet (added for this seed)"),
 "R5_C14_1":("own-address adoption skipped while a self-dial is pending","self-dial to an alias pending when the members first list the alias","C14 self_dial (dial-first order + adoption within one interval, added for this seed)"),
 "R5_C14_2":("a peer's list is evaluated only when it changed","after the 300 s reset of the own-address list the alias is never re-adopted","C14 self_dial (horizon past the reset, added for this seed)"),
 "R5_C14_3":("address lists written IPv4-first, read IPv6-first","node with one IPv4 advertise address, peer behind NAT","C14 multi_homed"),
 "R5_C15_1":("plain-mode peers skipped in broadcasts","plain mesh for longer than one peer timeout (dropped and re-dialled within a second, for ever)","C15 heterogeneous_meshes (redial oracle, added for this seed)"),
 "R5_C15_2":("announcement due-check < instead of <=","peer timeout 1","C15 heterogeneous_meshes (timeouts 1 and 2 in the grid, added for this seed)"),
 "R5_C15_3":("renewed handshake keeps the previous incarnation's advertised timeout","restart on the same address with a smaller peer timeout","C15 membership_churn (same-address restarts, added for this seed)"),
}
def main():
    log=open(os.path.join(U,'CONFIRM.log')).read()
    res={}
    for m in re.finditer(r'RESULT (R5_C\d+_\d) (.*)',log):
        res[m.group(1)]=m.group(2)   # later lines (re-runs) win
    made=0
    for key,(breaks,needs,det) in sorted(DESC.items()):
        _,pid,n=key.split('_')
        src=os.path.join(U,pid)
        patch=os.path.join(src,f'patch{n}.rebased.diff')
        rebased=os.path.exists(patch)
        if not rebased: patch=os.path.join(src,f'patch{n}.diff')
        demo=os.path.join(src,f'demo{n}.diff')
        if os.path.exists(os.path.join(src,f'demo{n}.rebased.diff')): demo=os.path.join(src,f'demo{n}.rebased.diff')
        if not os.path.exists(patch): print('no patch',key); continue
        r=res.get(key,'')
        ok=('a_suite_with_patch=ok' in r and 'b_demo_with_patch=fails' in r and 'c_demo_without_patch=passes' in r)
        if not ok:
            print('not confirmed:',key,r[:120]); continue
        dst=os.path.join(HERE,'seeded',key)
        os.makedirs(dst,exist_ok=True)
        shutil.copy(patch,os.path.join(dst,'patch.diff'))
        if os.path.exists(demo): shutil.copy(demo,os.path.join(dst,'demo.diff'))
        notes=os.path.join(src,'NOTES.md')
        if os.path.exists(notes): shutil.copy(notes,os.path.join(dst,'NOTES.md'))
        meta={"property":pid,"seed":key,"breaks":breaks,"needs_to_manifest":needs,
              "origin":"fifth-round independent sub-agent: saw only the property text, the list of earlier ideas to avoid and a scratch worktree of the repaired tree without the verification hooks",
              "rebased_onto_hooks":rebased,
              "confirmed":{"worktree":"scratch worktree of /repo HEAD under /tmp (removed afterwards)","suite_with_patch":"71 passed (beacon::encode_decode_cmd re-run alone when it flaked under load)","demo_with_patch":"fails","demo_without_patch":"passes","tool":"tools/confirm_seed.sh"},
              "detected_by":f"./check {pid} --tier quick: {det} (see seeded/LOG.md)"}
        json.dump(meta,open(os.path.join(dst,'meta.json'),'w'),indent=1)
        made+=1
    print('wrote',made,'seed directories')
if __name__=='__main__': main()
