#!/usr/bin/env python3
"""Round 2: builds /verif/seeded/R2_<id>_<n>/ (patch.diff, demo.diff, NOTES.md, meta.json) from seeded/_unconfirmed2 and its CONFIRM.log."""
import json, os, re, shutil
HERE=os.path.dirname(os.path.dirname(os.path.abspath(__file__)))
U=os.path.join(HERE,'seeded','_unconfirmed2')
# key -> (what the change is, what it needs to manifest, which check / family reports it)
DESC={
 "R2_C01_1":("fatal (connection-closing) error raised by the init message parser before the signature is verified","an unverifiable init-marked datagram from an address with a handshake in progress","C01"),
 "R2_C01_2":("data messages accepted from a pending (unproven) address","a non-init datagram from an address whose handshake has not completed","C01"),
 "R2_C03_1":("core tick moved behind the early returns of PeerCrypto::every_second","a tick in which the handshake object or the rotation produces a message (last seconds before a rotation): the window does not advance","C03 lifetime_replays (and C09)"),
 "R2_C03_2":("idle shortcut in CryptoCore::every_second","a tick without accepted traffic since the previous one","C03 window model"),
 "R2_C03_3":("merged loop in GenericCloud::crypto_housekeep: a pending handshake on an address takes the tick of the established peer","a replayed handshake datagram creating a pending entry next to the peer, then a late data replay","C03 node_replays, C09"),
 "R2_C04_1":("datagrams sealed with the nonce as transmitted (56 bits) instead of the full counter","a send counter crossing 2^56","C04 limit_56bit"),
 "R2_C04_2":("rotated-in sending keys start their counter at the first value of their half","any rotation: counters predictable / equal starts","C04 rotate_fresh_start"),
 "R2_C05_1":("expired pending handshake next to an established peer is never deleted","late duplicate ping followed by an outage longer than the peer timeout","C05 node_deviations (DupHold + outage)"),
 "R2_C05_2":("new crypto discarded when a handshake completes on an address that already has a peer entry","one-way outage, peer re-dials while the other side still lists it","C05 node_deviations"),
 "R2_C07_1":("a repeated rotation message is only correct the first time","two consecutive rotation messages lost","C07"),
 "R2_C07_2":("stale rotation messages restart the re-send timer","a single lost message plus a late duplicate","C07"),
 "R2_C09_1":("replay window advanced only for the sending key slot","replay of a data datagram after the first rotation","C09 late_replay_delivered"),
 "R2_C09_2":("fatal handshake error closes a peer whose handshake object still lingers","a handshake datagram reflected to its sender within 60 s of the handshake","C09 reflected"),
 "R2_C10_1":("node-id de-duplication of connections in connect_to_peers broken","a node known under two addresses (multi-homed mesh)","C10 multi_address_mesh"),
 "R2_C10_2":("destination address keeps the priority bits of the VLAN tag","a priority-tagged frame towards a learned station","C10 / C13"),
 "R2_C11_1":("remove_claims purges the decision cache only if the peer had a live claim","an address learned from a claim-less peer that then leaves","C11 table (Learn), C13"),
 "R2_C11_2":("a re-announced claim is refreshed with the cache timeout instead of the claim timeout","switch timeout different from peer timeout, re-announcement","C11 table"),
 "R2_C12_1":("early exit in ClaimTable::set_claims","re-announcing a shorter list","C12"),
 "R2_C12_2":("cached decision no longer bounded by the claim's lifetime","switch timeout longer than the peer timeout, lookup late in a claim's life","C12 long_cache, C11"),
 "R2_C13_1":("re-learning from the same peer does not restart the switch timeout","learn, wait, re-learn through the same peer, wait past the first deadline","C13 learning_switch_station"),
 "R2_C13_2":("disconnect by close expires learned entries only at the next sweep","a peer that leaves with a close message and a frame to its station in the same second","C13 Close event"),
 "R2_C13_3":("switch timeout and peer timeout swapped in the table constructor","switch timeout different from peer timeout","C13"),
 "R2_C14_1":("peers of unencrypted connections are not advertised","a mesh configured with algorithms: [plain] and a bootstrap graph that is not complete","C14 plain graphs"),
 "R2_C14_2":("salted node-id self check only for handshake objects that have not sent yet","a node dialling two of its own aliases at once whose datagrams come back crossed","C14 self_dial (both)"),
 "R2_C15_1":("peer deadline refreshed with the peer's advertised timeout instead of the configured one","peers configured with different timeouts, one falls silent","C15 silence (heterogeneous)"),
 "R2_C15_2":("announcement interval honours an explicit keepalive above the peers' timeouts","keepalive configured larger than a peer's advertised timeout","C15 announcement_interval"),
}
def main():
    log=open(os.path.join(U,'CONFIRM.log')).read()
    res={}
    for m in re.finditer(r'RESULT (R2_C\d+_\d) (.*)',log):
        res[m.group(1)]=m.group(2)   # later lines (re-runs) win
    made=0
    for key,(breaks,needs,det) in sorted(DESC.items()):
        _,pid,n=key.split('_')
        src=os.path.join(U,pid)
        patch=os.path.join(src,f'patch{n}.rebased.diff')
        rebased=os.path.exists(patch)
        if not rebased: patch=os.path.join(src,f'patch{n}.diff')
        demo=os.path.join(src,f'demo{n}.diff')
        if os.path.exists(os.path.join(src,f'demo{n}.rebased.diff')): demo=os.path.join(src,f'demo{n}.rebased.diff')
        if not os.path.exists(patch): print('no patch',key); continue
        r=res.get(key,'')
        ok=('a_suite_with_patch=ok' in r and 'b_demo_with_patch=fails' in r and 'c_demo_without_patch=passes' in r)
        if not ok:
            print('not confirmed:',key,r[:120]); continue
        dst=os.path.join(HERE,'seeded',key)
        os.makedirs(dst,exist_ok=True)
        shutil.copy(patch,os.path.join(dst,'patch.diff'))
        if os.path.exists(demo): shutil.copy(demo,os.path.join(dst,'demo.diff'))
        notes=os.path.join(src,'NOTES.md')
        if os.path.exists(notes): shutil.copy(notes,os.path.join(dst,'NOTES.md'))
        meta={"property":pid,"seed":key,"breaks":breaks,"needs_to_manifest":needs,
              "origin":"second-round independent sub-agent: saw only the property text, the list of first-round ideas to avoid and a scratch worktree of the repaired tree without the verification hooks",
              "rebased_onto_hooks":rebased,
              "confirmed":{"worktree":"scratch worktree of /repo HEAD under /tmp (removed afterwards)","suite_with_patch":"71 passed (beacon::encode_decode_cmd re-run alone when it flaked under load)","demo_with_patch":"fails","demo_without_patch":"passes","tool":"tools/confirm_seed.sh"},
              "detected_by":f"./check {pid} --tier quick: {det} (see seeded/LOG.md)"}
        json.dump(meta,open(os.path.join(dst,'meta.json'),'w'),indent=1)
        made+=1
    print('wrote',made,'seed directories')
if __name__=='__main__': main()
