#!/bin/bash
# usage: confirm_round.sh <round-dir> <prefix> <id>...   e.g. confirm_round.sh _unconfirmed3 R3 C02 C06
# a/b/c confirmation (tools/confirm_seed.sh) of every patchN/demoN pair of the given properties; appends to <round-dir>/CONFIRM.log
cd /verif
RD="$1"; PFX="$2"; shift; shift
LOG=seeded/$RD/CONFIRM.log
for id in "$@"; do
  d=seeded/$RD/$id
  for p in $d/patch[0-9].diff; do
    n=$(basename $p .diff | sed 's/patch//')
    demo="$d/demo$n.diff"
    [ -f "$demo" ] || continue
    [ -f "$d/patch$n.rebased.diff" ] && p="$d/patch$n.rebased.diff"
    filter=$(echo $id | tr 'A-Z' 'a-z'); filter="demo_$filter"
    grep -q "$filter" "$demo" || filter=$(echo $id | tr 'A-Z' 'a-z')
    grep -q "$filter" "$demo" || filter=demo
    tools/confirm_seed.sh "${PFX}_${id}_$n" "$p" "$demo" "$filter" >> $LOG 2>&1
  done
done
echo DONE >> $LOG
