#!/bin/bash
# like try_seeds.sh, for the second-round seeds under seeded/_unconfirmed2/<id>/
ID="$1"; shift; CHECKS="${@:-$ID}"
cd /verif
[ -z "$(git -C /repo status --porcelain)" ] || { echo "/repo not clean"; exit 2; }
for p in seeded/_unconfirmed2/$ID/patch*.diff; do
  [ -f "$p" ] || continue
  if ! (cd /repo && git apply -3 "/verif/$p" >/dev/null 2>&1); then echo "$p: DOES-NOT-APPLY"; (cd /repo && git reset -q --hard HEAD); continue; fi
  for c in $CHECKS; do
    out=$(./check $c 2>&1); rc=$?
    nviol=$(echo "$out" | grep -c "^VIOLATION")
    first=$(echo "$out" | grep -A1 "^VIOLATION" | grep "family=" | head -1 | cut -c1-220)
    if [ $rc -eq 1 ]; then echo "$p: check $c DETECTED ($nviol groups) $first"; elif [ $rc -eq 0 ]; then echo "$p: check $c MISSED"; else echo "$p: check $c MACHINERY rc=$rc $(echo "$out" | grep -E 'MACHINERY|error' | head -2)"; fi
  done
  (cd /repo && git reset -q --hard HEAD)
done
