#!/bin/bash
# usage: mutant_patch.sh <index>  - writes seeded/_mutants/M<index>/patch1.diff for mutant <index> of target/mutants.json
cd /verif; i=$1
git -C /tmp/seedrepo reset -q --hard main
python3 tools/mutate.py apply /tmp/seedrepo target/mutants.json $i > /dev/null || exit 1
mkdir -p seeded/_mutants/M$i
git -C /tmp/seedrepo diff > seeded/_mutants/M$i/patch1.diff
git -C /tmp/seedrepo reset -q --hard main
