#!/bin/bash
# confirmations for the round-2 seeds collected after confirm_round2.sh had started (and re-runs); appends to CONFIRM.log
cd /verif
LOG=seeded/_unconfirmed2/CONFIRM.log
for id in "$@"; do
  d=seeded/_unconfirmed2/$id
  for p in $d/patch[0-9].diff; do
    n=$(basename $p .diff | sed 's/patch//')
    demo="$d/demo$n.diff"
    [ -f "$demo" ] || continue
    [ -f "$d/patch$n.rebased.diff" ] && p="$d/patch$n.rebased.diff"
    filter=$(echo $id | tr 'A-Z' 'a-z'); filter="demo_$filter"
    grep -q "$filter" "$demo" || filter=demo
    tools/confirm_seed.sh "R2_${id}_$n" "$p" "$demo" "$filter" >> $LOG 2>&1
  done
done
echo DONE2 >> $LOG
