#!/usr/bin/env python3
"""Builds /verif/seeded/<id>_<n>/ (patch.diff, demo.diff, NOTES.md, meta.json) from seeded/_unconfirmed and CONFIRM.log."""
import json, os, re, shutil, subprocess, sys
HERE=os.path.dirname(os.path.dirname(os.path.abspath(__file__)))
U=os.path.join(HERE,'seeded','_unconfirmed')
DESC={
 "C01_1":("responder object for an unknown sender is stored before its first message verified","an init-marked datagram that does not verify, from an address without pending handshake; then a connect to / traffic from that address"),
 "C01_2":("own public key is always added to the trusted set","a node with explicit trusted keys that exclude its own (password-derived) key, and a second party holding the same key pair"),
 "C01_3":("retry counter reset before the message is verified","a handshake in progress, unverifiable noise in between, more than 120 s"),
 "C02_1":("a PeerCrypto without core (handshake pending) accepts datagrams unopened","a non-init datagram from an address with a pending handshake"),
 "C02_2":("placeholder key slots 1..3 filled with zeros instead of random data","a datagram sealed with the all-zero key under key id 1..3 spoofed from a peer's address, before rotation overwrites the slot"),
 "C03_1":("seen counter assigned instead of maximised","two datagrams accepted out of order inside one window, then two ticks"),
 "C03_2":("only the current key slot is ticked","a key rotation, then replay on the receive-only slot"),
 "C03_3":("seen counter raised before authentication","a forged datagram with a huge counter, two ticks"),
 "C04_1":("counter carry stops at byte 5 (wraps at 2^56)","a send counter crossing 2^56"),
 "C04_2":("rotated-in key keeps the slot's previous send counter","a connection living through several rotations (slot reuse)"),
 "C05_1":("failed_retries reset before the stage check","a responder holding state of an attempt its peer abandoned while the peer keeps re-dialling (> 120 ticks)"),
 "C05_2":("rotation role taken from 'who called initialize' instead of the handshake result","dual open with crossing pings (role switch)"),
 "C06_1":("best speed initialised with 0.0 and strict comparison","all shared ciphers have a slower side of exactly 0.0"),
 "C06_2":("received cipher list truncated to 3 entries","one side offers plain + all three ciphers, the other no plain, the winning cipher listed last"),
 "C07_1":("re-sent proposal uses a fresh key pair","a lost or late confirmation"),
 "C07_2":("stale rotation messages still consume the pending proposal","a duplicate delivered at least one receiver cycle late"),
 "C08_1":("ECDH key part read into a fixed 96-byte SmallVec (assert)","0xff datagram with a replayed valid key-hash prefix and an ECDH part longer than 96 bytes"),
 "C08_2":("seen counter raised before authentication","a spoofed >= 24-byte datagram with a high counter from a peer's address, then two ticks"),
 "C09_1":("seen counter raised before authentication","forged datagram with large counter from the peer's claimed address, two housekeeping ticks"),
 "C09_2":("undecryptable peng reported as recoverable error","verbatim replay of the initiator's ping inside its 60 s linger period (neutralised by the F2 repair: no longer property-breaking on the repaired tree)"),
 "C10_1":("learning refreshes an existing entry instead of overwriting it","an address seen behind peer A, then behind peer C, then a frame to it"),
 "C10_2":("'no core' treated as plain in decrypt_message","a datagram from an address the node is currently dialling"),
 "C11_1":("claim scan stops at the first match with prefix >= 32","IPv6/MAC ranges: a /32+ claim announced before a more specific one"),
 "C11_2":("cached decision no longer capped by the claim's expiry","first lookup late in the claim's life, second lookup after the claim expired by time"),
 "C12_1":("remove_claims clears learned addresses only if the peer owned a claim","switch mode, a peer without claims from which an address was learned is removed"),
 "C12_2":("re-announced claims are refreshed with the switch timeout","switch timeout different from peer timeout"),
 "C13_1":("VLAN mask applied after copying the tag to the destination address","a tagged frame with non-zero PCP/DEI bits towards a learned station"),
 "C13_2":("remove_claims implemented as set_claims(empty)","a claim-less peer disconnects while addresses learned from it are still fresh"),
 "C14_1":("entries containing an own address are skipped before the own-id adoption","a node reachable under an address that is not in its own-address list"),
 "C14_2":("handshake timeout error swallowed in PeerCrypto::every_second","X dials Y while Y is unreachable for more than 120 s, later Y dials X"),
 "C15_1":("announcement interval cached per peer count","a peer leaves and one with a smaller timeout joins between two announcements"),
 "C15_2":("back-off doubling guarded instead of clamped (4096 s)","a configured peer unreachable for more than 12.5 h"),
 "C16_1":("address list truncated to 8 instead of 7 per family","a peer entry or own address list with 8 or more addresses of one family"),
 "C16_2":("payload part buffer created with headroom","an init message announcing a payload of 65528..65535 bytes"),
 "C17_1":("age check without 16-bit wrap-around","hour stamps straddling 65535 -> 0 with a ttl set"),
 "C17_2":("base-62 scratch buffer sized with the base64 ratio","beacon payloads of 70 bytes or more (long peer lists)"),
 "C18_1":("from_base62 strips zero bytes of every 32-bit limb","a key with a zero byte at index 4, 8, ..., 28"),
 "C18_2":("empty password treated as 'no password' in generate_keypair","the empty password"),
 "C19_1":("VLAN mask applied after copying the tag to the destination","tag control with non-zero top nibble"),
 "C19_2":("length check after the slice in Packet::parse","runt packet (1..11 bytes v4, 1..7 bytes v6) with a valid version nibble"),
 "C20_1":("command-line trusted keys replace the file's","trusted keys both in the file and on the command line"),
 "C20_2":("netmask computed with wrapping_shr","prefix length exactly 32"),
}
def main():
    log=open(os.path.join(U,'CONFIRM.log')).read() if os.path.exists(os.path.join(U,'CONFIRM.log')) else ''
    res={}
    for m in re.finditer(r'RESULT (C\d+_\d) (.*)',log):
        res[m.group(1)]=m.group(2)
    detect={}
    lg=os.path.join(HERE,'seeded','LOG.md')
    made=0
    for key,(breaks,needs) in sorted(DESC.items()):
        pid,n=key.split('_')
        src=os.path.join(U,pid)
        patch=os.path.join(src,f'patch{n}.rebased.diff')
        rebased=os.path.exists(patch)
        if not rebased: patch=os.path.join(src,f'patch{n}.diff')
        demo=os.path.join(src,f'demo{n}.diff')
        if not os.path.exists(patch): continue
        r=res.get(key,'')
        ok=('a_suite_with_patch=ok' in r and 'b_demo_with_patch=fails' in r and 'c_demo_without_patch=passes' in r)
        if not ok and key!='C09_2':
            print('not confirmed:',key,r[:100]); continue
        if key=='C09_2':
            print('skipped (neutralised by F2 repair):',key); continue
        dst=os.path.join(HERE,'seeded',key)
        os.makedirs(dst,exist_ok=True)
        shutil.copy(patch,os.path.join(dst,'patch.diff'))
        demo_r=os.path.join(src,f'demo{n}.rebased.diff')
        if os.path.exists(demo_r): demo=demo_r
        if os.path.exists(demo): shutil.copy(demo,os.path.join(dst,'demo.diff'))
        notes=os.path.join(src,'NOTES.md')
        if os.path.exists(notes): shutil.copy(notes,os.path.join(dst,'NOTES.md'))
        meta={"property":pid,"seed":key,"breaks":breaks,"needs_to_manifest":needs,
              "origin":"independent sub-agent that saw only the property text and a scratch worktree of the original snapshot",
              "rebased_onto_fixes":rebased,
              "confirmed":{"worktree":"scratch worktree of /repo HEAD under /tmp (removed afterwards)","suite_with_patch":"71 passed (beacon::encode_decode_cmd re-run alone when it flaked under load)","demo_with_patch":"fails","demo_without_patch":"passes","tool":"tools/confirm_seed.sh"},
              "detected_by":f"./check {pid} --tier quick (see seeded/LOG.md)"}
        json.dump(meta,open(os.path.join(dst,'meta.json'),'w'),indent=1)
        made+=1
    print('wrote',made,'seed directories')
if __name__=='__main__': main()
