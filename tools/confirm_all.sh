#!/bin/bash
# Confirms every unconfirmed seed (a: suite green with patch, b: demo fails with patch, c: demo passes without) in scratch
# worktrees under /tmp and writes /verif/seeded/_unconfirmed/CONFIRM.log
cd /verif
LOG=seeded/_unconfirmed/CONFIRM.log
: > $LOG
for d in seeded/_unconfirmed/C*/; do
  id=$(basename $d)
  for p in $d/patch[0-9].diff; do
    n=$(basename $p .diff | sed 's/patch//')
    patch=$p
    [ -f "$d/patch$n.rebased.diff" ] && patch="$d/patch$n.rebased.diff"
    demo="$d/demo$n.diff"
    [ -f "$demo" ] || { echo "RESULT ${id}_$n no-demo" >> $LOG; continue; }
    # test filter: names of test functions/modules added by the demo
    filter=$(grep -E "^\+.*(mod |fn )demo" "$demo" | head -1 | sed -E 's/.*(demo[A-Za-z0-9_]*).*/\1/')
    [ -z "$filter" ] && filter=demo
    tools/confirm_seed.sh "${id}_$n" "$patch" "$demo" "$filter" >> $LOG 2>&1
  done
done
echo DONE >> $LOG
