#!/usr/bin/env python3
"""Round 3: builds /verif/seeded/R2_<id>_<n>/ (patch.diff, demo.diff, NOTES.md, meta.json) from seeded/_unconfirmed3 and its CONFIRM.log."""
import json, os, re, shutil
HERE=os.path.dirname(os.path.dirname(os.path.abspath(__file__)))
U=os.path.join(HERE,'seeded','_unconfirmed3')
# key -> (what the change is, what it needs to manifest, which check / family reports it)
DESC={
 "R3_C02_1":("an unknown cipher name in the configuration silently enables plain","a misspelt cipher name (e.g. chacha20-poly1305) in the config file of both ends","C02 configured_names (also C06 algorithm_names)"),
 "R3_C02_2":("a repeated handshake of an address that is already a peer keeps the old session keys","peer restarts and re-handshakes from the same address; then a late datagram of the old session, or new traffic","C02 superseded_connection (also C05)"),
 "R3_C06_1":("speeds compared as integers (truncation, saturation at 2^32)","speeds that differ only in the fraction, are all below 1.0, or exceed 4.29e9","C06 speed_magnitudes"),
 "R3_C06_2":("default cipher list applied whenever no cipher was parsed","a plain-only configuration","C06 algorithm_names"),
 "R3_C08_1":("failed pong decryption reported as recoverable: the pending handshake survives without its ephemeral key","a recorded genuine pong of another exchange sent twice from the address the victim is dialling","C08 signed_replays"),
 "R3_C08_2":("key id bound off by one (index 4 of 4)","a >= 24-byte datagram with first byte 4 from an established peer's address","C08 batches"),
 "R3_C16_1":("skip loop for unknown parts ignores the byte count returned by read","an unknown tag whose declared length exceeds the remaining bytes","C16 malformed (watchdog, kind hang)"),
 "R3_C16_2":("node id of a peer entry not reset per entry","an entry without node id after an entry with one","C16 node_info_roundtrip"),
 "R3_C17_1":("minimum-length guard of the beacon body one byte too small","a 1..3 character body that passes the one-byte seed check","C17 texts"),
 "R3_C17_2":("only one lost leading zero byte restored","masked data starting with two zero bytes (1 hour stamp in 65536)","C17 hours"),
 "R3_C18_1":("trusted keys parsed without left-padding","a public key whose first byte is zero, used as trusted key","C18 passwords / seeds"),
 "R3_C18_2":("node-side password derivation pre-hashes passwords longer than 32 bytes","a password of 33..64 bytes on one end, its printed key pair on the other","C18 passwords (all lengths)"),
 "R3_C19_1":("exclusive ranges on the first byte of IP packets","first byte 0x4f or 0x6f","C19"),
 "R3_C19_2":("VLAN-0 test runs before the 12-bit mask","priority-tagged frame (VLAN id 0, PCP/DEI non-zero)","C19 priority_bits_change_addresses (also C13)"),
 "R3_C20_1":("file hook kept when the command line names a hook for the same event","same event in the file's hooks map and in --hook E:script","C20 all_options"),
 "R3_C20_2":("file form drops the statsd prefix when no statsd server is set","statsd_prefix without statsd_server","C20 pairwise round trip"),
}
def main():
    log=open(os.path.join(U,'CONFIRM.log')).read()
    res={}
    for m in re.finditer(r'RESULT (R3_C\d+_\d) (.*)',log):
        res[m.group(1)]=m.group(2)   # later lines (re-runs) win
    made=0
    for key,(breaks,needs,det) in sorted(DESC.items()):
        _,pid,n=key.split('_')
        src=os.path.join(U,pid)
        patch=os.path.join(src,f'patch{n}.rebased.diff')
        rebased=os.path.exists(patch)
        if not rebased: patch=os.path.join(src,f'patch{n}.diff')
        demo=os.path.join(src,f'demo{n}.diff')
        if os.path.exists(os.path.join(src,f'demo{n}.rebased.diff')): demo=os.path.join(src,f'demo{n}.rebased.diff')
        if not os.path.exists(patch): print('no patch',key); continue
        r=res.get(key,'')
        ok=('a_suite_with_patch=ok' in r and 'b_demo_with_patch=fails' in r and 'c_demo_without_patch=passes' in r)
        if not ok:
            print('not confirmed:',key,r[:120]); continue
        dst=os.path.join(HERE,'seeded',key)
        os.makedirs(dst,exist_ok=True)
        shutil.copy(patch,os.path.join(dst,'patch.diff'))
        if os.path.exists(demo): shutil.copy(demo,os.path.join(dst,'demo.diff'))
        notes=os.path.join(src,'NOTES.md')
        if os.path.exists(notes): shutil.copy(notes,os.path.join(dst,'NOTES.md'))
        meta={"property":pid,"seed":key,"breaks":breaks,"needs_to_manifest":needs,
              "origin":"third-round independent sub-agent: saw only the property text, the list of earlier ideas to avoid and a scratch worktree of the repaired tree without the verification hooks",
              "rebased_onto_hooks":rebased,
              "confirmed":{"worktree":"scratch worktree of /repo HEAD under /tmp (removed afterwards)","suite_with_patch":"71 passed (beacon::encode_decode_cmd re-run alone when it flaked under load)","demo_with_patch":"fails","demo_without_patch":"passes","tool":"tools/confirm_seed.sh"},
              "detected_by":f"./check {pid} --tier quick: {det} (see seeded/LOG.md)"}
        json.dump(meta,open(os.path.join(dst,'meta.json'),'w'),indent=1)
        made+=1
    print('wrote',made,'seed directories')
if __name__=='__main__': main()
