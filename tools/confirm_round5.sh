#!/bin/bash
# usage: confirm_round4.sh <id>...   confirms seeded/_unconfirmed5/<id>/patch<n>.diff + demo<n>.diff (see confirm_seed.sh); appends to CONFIRM.log
cd /verif
LOG=seeded/_unconfirmed5/CONFIRM.log
for id in "$@"; do
  d=seeded/_unconfirmed5/$id
  for p in $d/patch[0-9].diff; do
    [ -f "$p" ] || continue
    n=$(basename $p .diff | sed 's/patch//')
    demo="$d/demo$n.diff"
    [ -f "$demo" ] || continue
    [ -f "$d/patch$n.rebased.diff" ] && p="$d/patch$n.rebased.diff"
    [ -f "$d/demo$n.rebased.diff" ] && demo="$d/demo$n.rebased.diff"
    tools/confirm_seed.sh "R5_${id}_$n" "$p" "$demo" "demo_" >> $LOG 2>&1
  done
done
