#!/usr/bin/env python3
"""Summarises /verif/target/mutation_results.jsonl: suite verdicts, which checks reported which mutant, survivors."""
import json,sys
from collections import Counter
rows=[json.loads(l) for l in open('/verif/target/mutation_results.jsonl')]
rows.sort(key=lambda r:r['index'])
print(len(rows),'mutants run;',dict(Counter(r['suite'] for r in rows)))
surv=[];det=[]
for r in rows:
    if r['suite']!='pass': continue
    d=[k for k,v in r['checks'].items() if v[0]==1]
    m=[k for k,v in r['checks'].items() if v[0] not in (0,1)]
    (det if d or m else surv).append((r,d,m))
print(len(det),'reported by at least one check;',len(surv),'survive every check')
if '-v' in sys.argv:
    for r,d,m in det:
        mu=r['mutant']; print('DET',r['index'],mu['file'],mu['line'],mu['op'],d,('MACHINERY '+str(m)) if m else '','|',mu['after'].strip()[:80])
for r,d,m in surv:
    mu=r['mutant']; print('SURV',r['index'],mu['file'],mu['line'],mu['op'],'|',mu['before'].strip()[:100],'=>',mu['after'].strip()[:100])
