#!/usr/bin/env python3
"""Generates /verif/MANIFEST.json from the table below (kept next to the checks so that it stays current)."""
import json, subprocess, sys, os

HERE = os.path.dirname(os.path.dirname(os.path.abspath(__file__)))

# id -> (level category, technique, level text, level note, design ref)
CHECKS = {
 "C10": ("model_checking", "explicit-state BFS by history replay over real node meshes per mode with a per-step conservation oracle",
         "Router/tun meshes with claims nested across nodes (3 nodes, 4 in thorough): all sequences of Inject(node, one of 7 destinations: inside each peer's claim, inside the own claim, covered by two claims, unclaimed, broadcast; 2 sources) and Tick to depth 3 quick / 4 thorough; switch/tap and hub/tap meshes with C13's frame universe to depth 3/4. After every injection: the reading node emits exactly one datagram per peer selected by the reference rule and to nobody else, no node emits anything because it received payload, every selected peer writes the byte-identical frame to its interface exactly once and nobody else writes, unroutable packets are counted as dropped. Payload-looking datagrams of 5 message types from an unknown address, an absent node and an address the node is currently dialling never reach an interface.",
         "Trusted: reference forwarding rule (most specific claim among the peers' claims; learning table of C13). Non-duplicating FIFO network.",
         "DESIGN.md section 5 C10"),
 "C13": ("model_checking", "explicit-state BFS by history replay over real 3-node switch/hub meshes against a reference learning table; exhaustive tag-control enumeration",
         "Real 3-node meshes in switch/tap mode (switch timeout 10 s, peer timeout 5 s): all sequences over Inject(node, 2 source MACs x 2 MACs + broadcast x tag set {none, VLAN 0 with priority 0/7, VLAN 0x67 with priority 0/7, ...}), Advance(1, T-1, T, T+1) and Drop(node) to depth 3 quick / 4 thorough; after every injection the set of interfaces that received the frame, the wire datagrams and the bytes must equal the reference (learned peer for a known, fresh (12-bit VLAN or untagged, MAC) key with VLAN 0 = untagged, else every peer; last writer wins; forgotten after T seconds or when the peer leaves - checked while entries are still fresh by age); in every state the implementation's fresh learned entries equal the reference table. Hub meshes and a router mesh must learn nothing. All 65536 tag-control values: same addresses as their 12-bit VLAN id alone, VLAN 0 = untagged.",
         "Trusted: reference table (30 lines). Every injection happens after the sweep of its second, so freshness is exact.",
         "DESIGN.md section 5 C13"),
 "C14": ("exploration", "exhaustive enumeration of bootstrap configurations and self-dial source maps, one real multi-node run each on a reliable network",
         "All connected labelled graphs on 2, 3 and 4 nodes (quick: trees for 4; thorough: all 38 graphs and the 125 trees on 5 nodes) x every orientation per edge (u dials v, v dials u, both) x NAT assignments x both salted-hash orders, plus for 3 nodes a late joiner (one node down for the first 130 s, longer than a handshake's retry budget): dial instructions are registered as reconnect peers like main.rs does; if the usable bootstrap graph is connected every pair must be mutually connected within n announcement intervals + 10 s, and at every second no node has a peer with its own node id or address. Self-dial: the node dials alias 1 or 2 of itself while the simulated translation shows it, for each of the 27 maps {real, alias1, alias2} -> source seen, its own datagrams from that source; alone and inside a 3-mesh whose members reach it through the alias (with connection tracking) - the alias must be adopted as own address.",
         "Trusted: the NAT model is the repository's MockSocket address filter; alias translation is the harness's (bidirectional, connection-tracked). Salts of a node's handshake objects differ from call to call (same leading byte).",
         "DESIGN.md section 5 C14"),
 "C11": ("model_checking", "explicit-state BFS by history replay over a real ClaimTable against a history-based reference; exhaustive prefix-match enumeration",
         "Per address family (IPv4, IPv6, VLAN+MAC) all sequences over {announce one of 6 claim subsets for one of 3 peers, disconnect, lookup of 4 addresses hitting every nesting level and none, advance 0/1/switch timeout/peer timeout with sweep, advance 1 without sweep} to depth 4 quick / 6 thorough (2.7 M canonical states) run on the real table; each lookup result must be in the allowed set of a history-only reference: peer of a most specific live claim (one sweep of slack), nothing if no live claim contains the address, or an earlier decision still within the switch timeout whose claim is still announced and whose peer was not removed; every state is additionally probed with all 4 lookups. Range::matches is compared with a bit-by-bit reference on the complete 8-bit universe, the 16-bit universe (boundary addresses quick, all thorough) and one-bit-difference addresses for 4/6/8/16-byte ranges with prefixes 0..=255. Node level: unknown destinations are dropped and counted in router mode and sent once to every peer in switch/hub mode; most specific claim wins across peers.",
         "Trusted: the reference (40 lines) and the canonical form (audited). Time constants scaled down (3 s / 7 s).",
         "DESIGN.md section 5 C11"),
 "C12": ("model_checking", "exhaustive enumeration of announcement sequences on a real ClaimTable plus scenario enumeration on real nodes driven by a scripted peer",
         "All sequences of 3 (quick) / 4 (thorough) announcements of one peer over all 65 ordered repetition-free lists of a 4-claim universe x a second peer with overlapping claims announcing at step 0/1/never x time step 0/1, plus all pairs involving lists with a duplicated entry: after every step the claims attributed to the peer equal the last announcement as a set, each lives exactly one peer timeout, no lookup resolves through a withdrawn claim; after the peer timeout nothing of a silent peer survives; removal clears claims, cached decisions and addresses learned from claim-less peers. Node level (real 2-node router mesh + scripted peer speaking through a real PeerCrypto): re-announce, restart on the same address with another node id and claims, silence past the timeout, close message, second handshake from the same address that never completes, keepalive-only - each at 4 start offsets x 6 claim variants; every second: next hops of claims and cache are peers and an interface read never hits 'Sending to node that is not a peer'.",
         "Trusted: scripted peer uses the repository's own codecs (covered separately by C16). Scaled-down time constants in the table part.",
         "DESIGN.md section 5 C12"),
 "C15": ("exploration", "exhaustive enumeration of timeout settings through real nodes (interval function), plus enumerated mesh / silence / back-off runs",
         "A real node is built for every own peer timeout in {0,1,59,60,119,120,121,300,65535} x keepalive in {unset,0,1,59,600,65535,100000}; a scripted peer connects through a real handshake advertising v (0..=400 + 16-bit boundaries quick, all 65536 thorough; alone or next to a peer advertising 300); after the announcing housekeep the scheduled delay must be 1 s or strictly below the smallest timeout advertised by the CURRENT peers; construction and housekeeping must not panic (overflow checks on). Membership churn: peers with advertised timeouts from an 11-value grid replace each other between announcements. All timeout triples of a 3-node mesh run, after a settle phase, for 3x the largest timeout without any disconnect; a node silenced from second t (every t in 0..=200) is removed with its routes at the first housekeep after its expiry and re-dialled; an unreachable configured peer is dialled for 48 h with gaps <= 3600 s.",
         "Trusted: H7 next_peers view. The 'healthy peers never time out' half is checked for stable membership (after every node has scheduled once knowing all peers); the transient after a short-timeout peer joins is reported as an observation in DESIGN.md, not as a violation.",
         "DESIGN.md section 5 C15"),
 "C01": ("fault_enumeration", "fault-space enumeration of forged handshake inputs x receiver stages on real PeerCrypto objects and nodes; exhaustive trust-graph enumeration through real handshakes",
         "Receivers prepared by genuine exchanges in the five stages (fresh, awaiting pong, awaiting peng, completed-lingering, closed; retry counters non-zero) receive, for genuine in-context and twin-run ping/pong/peng: every single-bit flip, every truncation with zero and junk buffer tail, well-formed messages of every stage value signed by an untrusted key (also grafted onto the trusted key's hash prefix), 0xff + every string of length <= 2, valid prefix + every tag x extreme length: each must return an error and leave the receiver's view unchanged. All 4096 trust graphs (4 key pairs, own key x 16 trusted subsets, both parties, both initiators) run as real handshakes: both complete iff each key is in the other's effective trusted set, otherwise no core/rotation state exists. Node level: 4 victim states x in-context genuine datagrams x bit flips/truncations/untrusted messages from the peer's and an unknown address, with C08's no-state/no-reply/no-write oracle.",
         "Trusted: Ed25519 (ring). A truncation that the buffer tail completes to the genuine message is a replay (C09), not a forgery.",
         "DESIGN.md section 5 C01"),
 "C02": ("fault_enumeration", "fault-space enumeration of altered / misdirected sealed datagrams on real CryptoCore pairs and 3-node meshes, plus exhaustive length/configuration enumeration for round trip and cleartext search",
         "Real CryptoCore pairs per cipher: all payload lengths 0..=300 plus large sizes x 3 buffer offsets round-trip byte-identically and show no 8-byte cleartext window; for lengths 0..=48 (300 thorough) every single-bit flip (key id, counter, ciphertext, tag), every truncation, reflection to the sealer, injection into a pair with other keys and forgeries sealed with guessable keys under every key id and half must fail and leave the replay window unchanged. 64 negotiated configurations through real handshakes (ciphers, plain/plain, plain on one side). Router and switch 3-node meshes: the wire capture contains no window of any payload or claim; each selected wire datagram is bit-flipped, truncated, reflected and injected into each of the 6 ordered connections and from an unknown source: no interface write, no reply, no state change. Datagrams of every message type from not-yet-established senders never reach the interface or the routing state.",
         "Trusted: ring AEAD. Confidentiality is decided as absence of 8-byte cleartext windows in explored captures.",
         "DESIGN.md section 5 C02"),
 "C09": ("fault_enumeration", "fault-space enumeration on recorded runs: captured datagram x re-injection offset x claimed source x variant, one fresh real node execution each, with a 400 s probe phase",
         "Scenarios (2 nodes single open, 2 nodes dual open, 3-node mesh; router mode with claims) are executed with a wire capture; for every selected datagram (all handshake datagrams, first rotation/node-info/data datagrams, mid-run data, everything around the first key rotation, the last ones) x 12 offsets {0..600 s} x claimed source {original, another peer, unknown} x variants {verbatim, counter+1/+1000/max, key-id edit, last-bit flip, stage edit, truncation} x target {destination, reflected to sender}, plus ordered pairs of verbatim handshake re-injections, a fresh execution runs to the injection time, injects, and then sends one packet per second in every direction for 400 s: all pairs stay connected and every packet is delivered exactly once (one extra copy of an earlier packet is tolerated for in-window replays; a data datagram replayed two or more seconds after its first delivery must not be delivered again). Injection before the mesh is complete is outside the statement and skipped.",
         "Trusted: the k-th wire datagram has the same role in every execution (deterministic scheduling). Violations that depend on the order of uncontrolled random counters are replayed 8 times and reported with their reproduction rate.",
         "DESIGN.md section 5 C09"),
 "C05": ("model_checking", "explicit-state BFS by history replay over two real PeerCrypto handshake objects (object level) and over two real nodes (node level)",
         "Node level: all placements of <= 2 deviations (drop, duplicate, hold 1/2/5/61/121/130 s, partition 125 s) over the first 10-14 datagram hand-overs of real 2- and 3-node runs (dial patterns A, B, both; both hash orders), each followed by a reliable phase of peer timeout + retry horizon: mutually connected, payload both ways, no self-peering. Object level: all schedules over {A initiates, B initiates, deliver/duplicate/drop ANY of <= 4 in-flight datagrams, tick A/B x1/x61/x121, restart A/B} to depth 6 quick / 9 thorough for both salted-hash orientations plus a plain variant, on real PeerCrypto objects; objects returning a fatal handshake error are discarded as the node does. In every state: at most one completion per object; if both completed the same attempt (tracked by message lineage): same cipher, opposite nonce halves, exactly one rotation initiator, exchanged payloads, probes open both ways; from every state 125 loss-free ticks must bring two live objects to a common completed attempt.",
         "Trusted: canonical form (audited), lineage tracking in the harness. Two parties. The network in the fair suffix is reliable with bounded rate (32 datagrams/tick, 4 once a pong storm was seen).",
         "DESIGN.md section 5 C05"),
 "C08": ("fault_enumeration", "fault-space enumeration: receiver states x sources x structured datagram domain through the real socket event of a mock-backed node",
         "The complete product {unknown sender, pending initiator, pending responder, established lingering, established settled, established plain, closing} x {unknown address, the peer's address} x {all byte strings of length <= 2; lengths 3..=80 x 15 first bytes x 4 bodies; 0xff + valid key-hash prefix + tag x 13 extreme lengths at every part position of genuine ping/pong/peng; every truncation and length-field corruption of genuine handshake and sealed datagrams; sizes 1400/9000/65435} - about 1.07 M datagrams - is handed to a real GenericCloud node under panic capture; a rejected datagram must leave peers, pending handshakes (including replay windows), routes, own addresses unchanged, cause no reply and no interface write. Datagrams that equal a genuine signed message (also when completed by the zero-filled receive buffer) are replays and belong to C09.",
         "Trusted: the snapshot covers all state a datagram can leave behind (statistics counters excluded). On a connection where both ends enabled 'plain' nothing is verified, so only crash freedom is demanded for the peer's address there. Sequences follow by induction from the unchanged-state oracle.",
         "DESIGN.md section 5 C08"),
 "C04": ("model_checking", "seal-log monitor over an exhaustively enumerated scenario space of real connection lifetimes + exhaustive counter-boundary enumeration",
         "Every connection lifetime in the scenario space (ciphers x both salted-hash orientations x {A dials, B dials, both dial with crossing pings} x all 256 loss patterns over the first 8 rotation datagrams, 8-12 rotation cycles with traffic both ways) is executed on real PeerCrypto objects with the hook's per-seal log on: no (key fingerprint, nonce) pair occurs twice, counters strictly increase per key and end, untransmitted nonce bytes stay zero, ends use opposite halves, first counters of rotated-in keys do not continue another key's sequence. The counter increment is compared with 96-bit +1 on every boundary pattern and on all 2^24 low-byte values under 4 high patterns (67 M cases); counters placed at 2^56-10..2^56+3 and at every byte-carry boundary are sealed 7 times and opened: overflowing counters must not open, headers never repeat. The half assignment over all handshake schedules is checked in C05's search.",
         "Trusted: the seal-log hook records exactly the (key, nonce) handed to ring (one added line in CryptoCore::encrypt). Random counter starts are not forced except through verif_set_send_nonce in the limit family.",
         "DESIGN.md section 5 C04"),
 "C03": ("model_checking", "explicit-state BFS by history replay over a real CryptoCore pair, history-only reference oracle",
         "All schedules over {seal (<=5), deliver any sealed datagram (again), forge (raised counter), tick, rotate (new key id at receiver then sender)} up to depth 9 quick / 13 thorough (aes128; 8 / 12 for the other ciphers), executed on real CryptoCore objects; every delivery's accept/reject verdict is compared with a threshold computed from the recorded history only, and in every reached state every datagram sealed so far plus a fresh one is probed. States are deduplicated on a canonical form (key classes, thresholds and counters as offsets, oracle ages); a dedup-off audit to a smaller depth must reach the same canonical states.",
         "Trusted: ring AEAD authenticity; counters near byte-carry boundaries are covered by C04, not forced here. Node-level replay (interface writes k rounds later) is covered by C09's replay family.",
         "DESIGN.md section 5 C03"),
 "C06": ("exploration", "exhaustive enumeration of cipher-list configurations through real two-party handshakes against a reference selection rule",
         "Every pair of unordered side descriptions (each cipher absent or present with a speed from the grid {0,1,2} quick / {0,1,2,3e38} thorough, plain flag) is expanded inside the case into ALL orderings of both lists x both initiators, each a real PeerCrypto handshake followed by probes; the configuration path (cipher names in any case and alias, empty list = all three ciphers without plain, unknown name = error) is enumerated over all lists of up to 2 names; outcomes must agree across orderings/initiators and with the reference (plain iff both flags; a cipher maximising the slower side's speed; clean 'No common algorithms' failure iff no common cipher). Every single-byte edit of the cipher-list part of a genuine ping must be rejected without state change.",
         "Trusted: the 20-line reference rule. Speeds outside the grid are assumed to behave like grid values with the same order relations (the code only compares speeds).",
         "DESIGN.md section 5 C06"),
 "C07": ("model_checking", "explicit-state BFS by history replay over two real PeerCrypto objects (rotation state + key slots) with invariant, probes and bounded fair extension",
         "After a genuine handshake (both salted-hash orientations; aes128 deep, other ciphers shallower) all schedules over {120-tick rotation cycle at A, at B, deliver / duplicate / drop any of <= 4 in-flight rotation datagrams} are explored to depth 7 quick / 12 thorough on the real objects. After every transition: each end's current sealing slot holds, at the peer, a key with the same fingerprint; a probe sealed by each end opens at the other with the expected key id; from every state a loss-free extension of 6 rounds must change each end's sealing key at least twice in its last 4 rounds. Canonical states use relative message ids (preserving id mod 4), key classes and counter offsets; audited with dedup off.",
         "Trusted: the canonical form (audited to depth 5/6). Two parties only; pool cap 4 (overflow = loss of the oldest datagram).",
         "DESIGN.md section 5 C07"),
 "C20": ("exploration", "exhaustive per-option / pairwise (thorough: 3-wise) presence-combination enumeration through the real YAML and argv parsers and merge functions against a documented-defaults overlay",
         "For each of 35 options all four presence combinations (absent / file / command line / both) with distinct values in two value variants, all pairs of options x 15 combinations, and in the thorough tier all triples, are pushed through serde_yaml -> ConfigFile -> merge_file and argv -> structopt -> merge_args; the effective Config is compared field by field with a reference overlay written from vpncloud.adoc; each effective configuration is then round-tripped through into_config_file + YAML. The netmask function (its text is cut out of src/main.rs at build time) is run on every prefix length 0..=40 x 4 addresses and a list of malformed strings.",
         "Trusted: the hard-coded documented defaults and the option table in the harness. parse_ip_netmask is compiled from text extracted out of main.rs (main.rs cannot be a module); if the function is renamed the build fails as a machinery error.",
         "DESIGN.md section 5 C20"),
 "C16": ("exploration", "exhaustive small-scope enumeration of message shapes and malformed inputs through the real encoders/decoders against structural references",
         "Every generated node-info / handshake / rotation message shape is encoded and decoded by the real codecs and compared with the format's normalisation; an unknown part is inserted at every part boundary; every truncation, every byte substitution (structural values in quick, all 256 in thorough) and all byte strings up to length 2 (3) go through all three decoders with and without a 64 KiB stale tail, under panic capture and a counting allocator (< 1 MiB per call). Complete enumeration of the stated domains.",
         "Trusted: the normalisation rule written in the harness from the statement; messages larger than the enumerated shapes are assumed to add nothing structurally new.",
         "DESIGN.md section 5 C16"),
 "C17": ("exploration", "exhaustive enumeration of hour stamps, list shapes, passwords, embeddings and age boundaries through the real beacon serializer",
         "All 65536 hour stamps x 3 lists, 45 list shapes x 64 stamps, a 200-password dictionary, every separator position x 12 embeddings (partial/overlapping markers, several beacons), the ttl/age boundary grid in both wrap-around directions, all ordered pairs of 20 passwords, passwords with overlapping markers searched among 2000, and all short bodies/substitutions for panic freedom - each case an execution of the real encode/decode. The failing inputs of this property are thin slices (1/256 of instants, rare passwords) that only complete enumeration hits with certainty.",
         "Trusted: SHA-512 masking is not analysed, only exercised. The one-byte integrity seed means substituted bodies may decode to other addresses; only panic freedom is demanded there.",
         "DESIGN.md section 5 C17"),
 "C18": ("exploration", "exhaustive enumeration of short byte strings (codec vs big-integer reference), leading-zero seed patterns and a password dictionary through real key generation, configuration and handshakes",
         "The text codec is compared with a big-integer reference on every byte string up to length 2 (3); seeds with 0..4 leading zero bytes and seeds searched for a zero-leading PUBLIC key are rendered as key generation prints them and then configured as private / private+public / trusted key, each followed by real handshakes in both directions; 3000 (20000) numbered passwords plus a dictionary are derived twice and used in two node instances; all ordered pairs of 12 passwords must not connect. The defect class (1/128 of keys) is hit by enumeration, not luck.",
         "Trusted: ring's Ed25519/PBKDF2. Random seeds are replaced by structured enumeration. A password and the same password followed by NUL bytes are the same HMAC key by construction of PBKDF2-HMAC and are not treated as 'different passwords'.",
         "DESIGN.md section 5 C18"),
 "C19": ("exploration", "exhaustive small-scope input enumeration of the real dissectors against a reference dissector",
         "Every byte string of the enumerated structured domain (all lengths 0..=64, all 65536 ethertypes, all 65536 tag-control values, nested tags, all version nibbles x lengths, every address byte) is run through the real Frame::parse / Packet::parse and compared with an independent reference; complete enumeration, no sampling. Right level: the functions are pure and read at most 40 bytes, so the small scope covers every branch and every offset.",
         "Trusted: the reference dissector in the harness (30 lines). Inputs longer than 64 bytes are assumed to behave like their prefix.",
         "DESIGN.md section 5 C19"),
}

NOT_YET = {}

def main():
    props = [json.loads(l) for l in open(os.path.join(HERE, "properties.jsonl"))]
    hooks_commits = subprocess.run(["git", "-C", "/repo", "log", "--format=%H %s"], capture_output=True, text=True).stdout.splitlines()
    hook_shas = [l.split()[0] for l in hooks_commits if "verif hook" in l]
    checks = []
    na = []
    for p in props:
        pid = p["id"]
        if pid in CHECKS:
            level, technique, text, note, ref = CHECKS[pid]
            checks.append({
                "property_id": pid,
                "quick_cmd": f"./check {pid} --tier quick",
                "thorough_cmd": f"./check {pid} --tier thorough",
                "evidence_file": f"/verif/evidence/{pid}.json",
                "replay_cmd_template": "./check --replay {path}",
                "engine": "vcheck",
                "level_claimed": {"category": level, "text": text, "design_ref": ref},
                "level_note": note,
                "technique": technique,
            })
        else:
            na.append({"property_id": pid, "reason": NOT_YET.get(pid, "check not built yet in this session; the design (DESIGN.md section 5) applies the same engines to it")})
    manifest = {
        "version": 1,
        "setup_cmd": "./check --build",
        "hooks": {
            "guard": "--cfg dswd_vpncloud_verif",
            "enable": "RUSTFLAGS='--cfg dswd_vpncloud_verif' (set in /verif/harness/.cargo/config.toml; the harness crate compiles /repo/src in place via #[path] modules)",
            "baseline_off_cmd": "cd /repo && cargo test --workspace --no-fail-fast --offline",
            "source_commits": hook_shas,
            "add_only": True,
        },
        "engines": [
            {"name": "vcheck", "path": "/verif/harness", "serves_properties": sorted(CHECKS.keys()),
             "kind_free_text": "hand-rolled explicit-state / exhaustive-enumeration model checker driving the real Rust code of /repo: E1 BFS over real objects by history replay with canonical fingerprints, E2 deviation-bounded node runs over the mock socket/device/clock, E3 exhaustive small-scope input enumeration against reference models, E4 fault-space enumeration on recorded runs"},
        ],
        "checks": checks,
        "not_applicable": na,
        "notes": "All checks: cwd /verif, ./check <id> --tier quick|thorough; exit 0 held / 1 VIOLATION / 2 machinery error. Known findings: /verif/known_findings.json. See DESIGN.md.",
    }
    json.dump(manifest, open(os.path.join(HERE, "MANIFEST.json"), "w"), indent=1)
    print("wrote MANIFEST.json with", len(checks), "checks,", len(na), "not_applicable")

if __name__ == "__main__":
    main()
