#!/usr/bin/env python3
"""Generates /verif/MANIFEST.json from the table below (kept next to the checks so that it stays current)."""
import json, subprocess, sys, os

HERE = os.path.dirname(os.path.dirname(os.path.abspath(__file__)))

# id -> (level category, technique, level text, level note, design ref)
CHECKS = {
 "C19": ("exploration", "exhaustive small-scope input enumeration of the real dissectors against a reference dissector",
         "Every byte string of the enumerated structured domain (all lengths 0..=64, all 65536 ethertypes, all 65536 tag-control values, nested tags, all version nibbles x lengths, every address byte) is run through the real Frame::parse / Packet::parse and compared with an independent reference; complete enumeration, no sampling. Right level: the functions are pure and read at most 40 bytes, so the small scope covers every branch and every offset.",
         "Trusted: the reference dissector in the harness (30 lines). Inputs longer than 64 bytes are assumed to behave like their prefix.",
         "DESIGN.md section 5 C19"),
}

NOT_YET = {}

def main():
    props = [json.loads(l) for l in open(os.path.join(HERE, "properties.jsonl"))]
    hooks_commits = subprocess.run(["git", "-C", "/repo", "log", "--format=%H %s"], capture_output=True, text=True).stdout.splitlines()
    hook_shas = [l.split()[0] for l in hooks_commits if "verif hook" in l]
    checks = []
    na = []
    for p in props:
        pid = p["id"]
        if pid in CHECKS:
            level, technique, text, note, ref = CHECKS[pid]
            checks.append({
                "property_id": pid,
                "quick_cmd": f"./check {pid} --tier quick",
                "thorough_cmd": f"./check {pid} --tier thorough",
                "evidence_file": f"/verif/evidence/{pid}.json",
                "replay_cmd_template": "./check --replay {path}",
                "engine": "vcheck",
                "level_claimed": {"category": level, "text": text, "design_ref": ref},
                "level_note": note,
                "technique": technique,
            })
        else:
            na.append({"property_id": pid, "reason": NOT_YET.get(pid, "check not built yet in this session; the design (DESIGN.md section 5) applies the same engines to it")})
    manifest = {
        "version": 1,
        "setup_cmd": "./check --build",
        "hooks": {
            "guard": "--cfg dswd_vpncloud_verif",
            "enable": "RUSTFLAGS='--cfg dswd_vpncloud_verif' (set in /verif/harness/.cargo/config.toml; the harness crate compiles /repo/src in place via #[path] modules)",
            "baseline_off_cmd": "cd /repo && cargo test --workspace --no-fail-fast --offline",
            "source_commits": hook_shas,
            "add_only": True,
        },
        "engines": [
            {"name": "vcheck", "path": "/verif/harness", "serves_properties": sorted(CHECKS.keys()),
             "kind_free_text": "hand-rolled explicit-state / exhaustive-enumeration model checker driving the real Rust code of /repo: E1 BFS over real objects by history replay with canonical fingerprints, E2 deviation-bounded node runs over the mock socket/device/clock, E3 exhaustive small-scope input enumeration against reference models, E4 fault-space enumeration on recorded runs"},
        ],
        "checks": checks,
        "not_applicable": na,
        "notes": "All checks: cwd /verif, ./check <id> --tier quick|thorough; exit 0 held / 1 VIOLATION / 2 machinery error. Known findings: /verif/known_findings.json. See DESIGN.md.",
    }
    json.dump(manifest, open(os.path.join(HERE, "MANIFEST.json"), "w"), indent=1)
    print("wrote MANIFEST.json with", len(checks), "checks,", len(na), "not_applicable")

if __name__ == "__main__":
    main()
