#!/bin/bash
# re-runs the confirmation for every seed whose last RESULT is not (ok, fails, passes)
cd /verif
LOG=seeded/_unconfirmed/CONFIRM.log
for d in seeded/_unconfirmed/C*/; do
  id=$(basename $d)
  for p in $d/patch[0-9].diff; do
    n=$(basename $p .diff | sed 's/patch//')
    last=$(grep "^RESULT ${id}_$n " $LOG | tail -1)
    if echo "$last" | grep -q "a_suite_with_patch=ok b_demo_with_patch=fails c_demo_without_patch=passes"; then continue; fi
    patch=$p
    [ -f "$d/patch$n.rebased.diff" ] && patch="$d/patch$n.rebased.diff"
    demo="$d/demo$n.diff"
    [ -f "$demo" ] || continue
    filter=$(grep -E "^\+.*(mod |fn )demo" "$demo" | head -1 | sed -E 's/.*(demo[A-Za-z0-9_]*).*/\1/')
    [ -z "$filter" ] && filter=demo
    tools/confirm_seed.sh "${id}_$n" "$patch" "$demo" "$filter" >> $LOG 2>&1
  done
done
echo DONE2 >> $LOG
