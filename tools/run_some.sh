#!/bin/bash
# usage: run_some.sh <tier> <id>...   runs the given checks of this tree one after the other (own output directory per tree)
V="$(cd "$(dirname "${BASH_SOURCE[0]}")/.." && pwd)"; cd "$V"
TIER=$1; shift
./check --build || exit 2
for id in "$@"; do
  start=$(date +%s); out=$(./check $id --tier $TIER 2>&1); rc=$?; end=$(date +%s)
  echo "$id rc=$rc $((end-start))s"; echo "$out" | grep -E "family|HELD|VIOLAT|MACHINERY|KNOWN" | cut -c1-260
done
