#!/bin/bash
cd /verif
LOG=seeded/_unconfirmed2/CONFIRM.log
: > $LOG
for d in seeded/_unconfirmed2/C*/; do
  id=$(basename $d)
  for p in $d/patch[0-9].diff; do
    n=$(basename $p .diff | sed 's/patch//')
    demo="$d/demo$n.diff"
    [ -f "$demo" ] || continue
    filter=$(grep -E "^\+.*(mod |fn )demo" "$demo" | head -1 | sed -E 's/.*(demo[A-Za-z0-9_]*).*/\1/')
    [ -z "$filter" ] && filter=demo
    tools/confirm_seed.sh "R2_${id}_$n" "$p" "$demo" "$filter" >> $LOG 2>&1
  done
done
echo DONE >> $LOG
