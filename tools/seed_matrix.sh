#!/bin/bash
# Applies every kept seed (seeded/<id>_<n>/patch.diff) to a scratch worktree of /repo HEAD (outside /repo and /verif),
# runs the quick check of its property against that worktree and prints detected / MISSED. The scratch tree and its
# build output are removed at the end. usage: seed_matrix.sh [seed-dir-prefix]
cd /verif
WT=/tmp/seedrepo; TG=/tmp/seedtarget
rm -rf $WT $TG; git -C /repo worktree prune
git -C /repo worktree add --detach $WT HEAD >/dev/null 2>&1 || exit 2
OUT=seeded/MATRIX.txt
: > $OUT
for d in seeded/${1:-C}*_[0-9]/; do
  s=$(basename $d); id=${s%_*}
  (cd $WT && git checkout -q -- . && git apply -3 /verif/$d/patch.diff >/dev/null 2>&1 && git reset -q) || { echo "$s DOES-NOT-APPLY" | tee -a $OUT; continue; }
  out=$(VERIF_REPO=$WT VERIF_TARGET=$TG VERIF_DIR=/tmp/seedverif ./check $id --tier quick 2>&1); rc=$?
  first=$(echo "$out" | grep -A1 "^VIOLATION" | grep "family=" | head -1 | sed 's/ :: .*//' | cut -c1-160)
  case $rc in
    1) echo "$s detected by $id: $first" | tee -a $OUT;;
    0) echo "$s MISSED by $id" | tee -a $OUT;;
    *) echo "$s MACHINERY rc=$rc $(echo "$out" | grep -E 'MACHINERY' | head -1 | cut -c1-120)" | tee -a $OUT;;
  esac
done
git -C /repo worktree remove --force $WT; rm -rf $TG /tmp/seedverif
