// vcheck - model-checking harness for dswd/vpncloud.
// The crate root mirrors vpncloud's src/main.rs module list so that `crate::...` paths inside the
// repository's sources resolve unchanged; the sources are compiled in place from $VERIF_REPO (default /repo).
#![allow(clippy::all)]

#[macro_use]
extern crate log;
#[macro_use]
extern crate serde;

include!(concat!(env!("OUT_DIR"), "/repo_mods.rs"));

pub mod main_extract {
    use std::{net::Ipv4Addr, str::FromStr};
    include!(concat!(env!("OUT_DIR"), "/main_extract.rs"));
}

pub mod mc;
pub mod props;

#[global_allocator]
static GLOBAL: mc::alloc::Counting = mc::alloc::Counting;

fn main() {
    std::process::exit(mc::cli::main())
}
