//! E1 engine: explicit-state breadth-first search over REAL objects by history replay.
//!
//! A state is the event history that produced it plus the fingerprint of its canonical form. To expand a
//! state the engine builds fresh real objects, replays the history (hard error if the canonical fingerprint
//! differs from the one recorded when the history was first produced = uncontrolled nondeterminism), applies
//! one more event, evaluates the step oracle, canonicalises, and finally lets the model run destructive
//! probes on the discarded objects.
use super::{util, Ctx, Fail, FamilyStats};
use serde::Serialize;
use serde_json::{json, Value};
use std::{
    collections::{HashMap, HashSet},
    fmt::Debug,
    sync::{
        atomic::{AtomicBool, AtomicU64, Ordering},
        Mutex,
    },
    time::{Duration, Instant},
};

pub trait Model: Sync {
    type Ev: Clone + Serialize + Debug + Send + Sync;
    type Sys;
    /// Fresh real objects in the initial state (may be one of several initial states, see `initial_histories`).
    fn init(&self) -> Self::Sys;
    /// Events enabled in this state, simplest first.
    fn enabled(&self, sys: &Self::Sys, hist: &[Self::Ev]) -> Vec<Self::Ev>;
    /// Applies one event to the real objects and checks the per-step oracle.
    fn apply(&self, sys: &mut Self::Sys, ev: &Self::Ev) -> Result<(), Fail>;
    /// Canonical form of the state (fresh values renamed, counters as offsets, ...).
    fn canon(&self, sys: &Self::Sys) -> Vec<u8>;
    /// State invariant + destructive probes; consumes the objects. Returns an outcome class.
    fn probe(&self, sys: Self::Sys, hist: &[Self::Ev]) -> Result<u64, Fail>;
    /// True if `probe` looks at nothing but what `canon` describes (no history-dependent oracle): the search then probes each
    /// canonical state once instead of once per transition that reaches it. Rests on the same premise as the deduplication
    /// itself (states with equal canonical form have equal futures), which `audit_dedup` tests.
    fn probe_once_per_state(&self) -> bool {
        false
    }
}

pub struct ExploreOpts {
    pub max_depth: usize,
    pub wall_cap: Duration,
    pub state_cap: u64,
    /// dedup on canonical fingerprint (false = audit mode: every history is its own state)
    pub dedup: bool,
}

pub struct ExploreResult {
    pub stats: FamilyStats,
    /// canonical fingerprints reached per depth (for the dedup audit)
    pub per_depth: Vec<HashSet<u64>>,
    /// one history per fingerprint (JSON), kept for small depths only (diagnostics of the audit)
    pub repr: HashMap<u64, String>,
}

fn replay<M: Model>(model: &M, hist: &[M::Ev]) -> Result<M::Sys, (usize, Fail)> {
    let mut sys = model.init();
    for (i, ev) in hist.iter().enumerate() {
        model.apply(&mut sys, ev).map_err(|f| (i, f))?;
    }
    Ok(sys)
}

/// Replays a history sequentially (used by --replay and to confirm violations). Returns the failed oracle, if any.
pub fn replay_history<M: Model>(model: &M, hist: &[M::Ev]) -> Result<u64, Fail> {
    let res = util::catch(|| match replay(model, hist) {
        Ok(sys) => model.probe(sys, hist),
        Err((i, f)) => Err(f.with("step", i as u64)),
    });
    match res {
        Ok(r) => r,
        Err(p) => Err(Fail::from_panic(&p)),
    }
}

pub fn explore<M: Model>(ctx: &Ctx, family: &str, model: &M, opts: ExploreOpts) -> ExploreResult {
    if !ctx.family_enabled(family) {
        return ExploreResult { stats: FamilyStats::default(), per_depth: vec![], repr: HashMap::new() };
    }
    let start = Instant::now();
    // level 0
    let init_fp = util::on_big_stack(|| util::fnv64(&model.canon(&model.init())));
    let mut seen: HashMap<u64, ()> = HashMap::new();
    seen.insert(init_fp, ());
    let mut frontier: Vec<(Vec<M::Ev>, u64)> = vec![(vec![], init_fp)];
    let mut per_depth: Vec<HashSet<u64>> = vec![[init_fp].into_iter().collect()];
    let transitions = AtomicU64::new(0);
    let executions = AtomicU64::new(0);
    let probes_skipped = AtomicU64::new(0);
    let classes: Mutex<HashSet<u64>> = Mutex::new(HashSet::new());
    let mut states: u64 = 1;
    let mut repr: HashMap<u64, String> = HashMap::new();
    let mut depth_completed = 0usize;
    let mut cap_hit: Option<String> = None;
    let mut samples: Vec<Value> = vec![];
    let nondeterminism = AtomicBool::new(false);
    // probe the initial state too
    {
        let r = util::on_big_stack(|| replay_history(model, &[]));
        match r {
            Ok(c) => {
                classes.lock().unwrap().insert(c);
            }
            Err(f) => ctx.add_violation(family, json!({"history": Vec::<Value>::new()}), f),
        }
    }
    for depth in 0..opts.max_depth {
        if frontier.is_empty() {
            break;
        }
        let next_idx = AtomicU64::new(0);
        let out: Mutex<Vec<(Vec<M::Ev>, u64)>> = Mutex::new(vec![]);
        let capped = AtomicBool::new(false);
        let level_seen: Mutex<HashSet<u64>> = Mutex::new(HashSet::new());
        // canonical states whose probe failed: no transition into them yields a successor (as when every transition is probed)
        let failed_fps: Mutex<HashSet<u64>> = Mutex::new(HashSet::new());
        let once = opts.dedup && model.probe_once_per_state();
        let seen_ref = &seen;
        let nthreads = util::workers().min(frontier.len()).max(1);
        util::run_workers(nthreads, |_| {
            let mut local_out: Vec<(Vec<M::Ev>, u64)> = vec![];
            let mut local_classes: HashSet<u64> = HashSet::new();
            loop {
                let i = next_idx.fetch_add(1, Ordering::SeqCst) as usize;
                if i >= frontier.len() {
                    break;
                }
                if start.elapsed() > opts.wall_cap {
                    capped.store(true, Ordering::SeqCst);
                    break;
                }
                let (hist, fp) = &frontier[i];
                // rebuild, check determinism, list enabled events
                let evs = match util::catch(|| {
                    let sys = replay(model, hist).map_err(|_| ()).ok()?;
                    let canon = model.canon(&sys);
                    let got = util::fnv64(&canon);
                    if got != *fp {
                        eprintln!("diverging canonical state: {}", String::from_utf8_lossy(&canon));
                        let again = replay(model, hist).map_err(|_| ()).ok()?;
                        eprintln!("another replay gives      : {}", String::from_utf8_lossy(&model.canon(&again)));
                        return None;
                    }
                    Some(model.enabled(&sys, hist))
                }) {
                    Ok(Some(evs)) => evs,
                    _ => {
                        nondeterminism.store(true, Ordering::SeqCst);
                        eprintln!("MACHINERY ERROR: replay of {:?} diverged from its recorded canonical state", hist);
                        break;
                    }
                };
                executions.fetch_add(1, Ordering::SeqCst);
                for ev in evs {
                    let mut h2 = hist.clone();
                    h2.push(ev.clone());
                    transitions.fetch_add(1, Ordering::SeqCst);
                    executions.fetch_add(1, Ordering::SeqCst);
                    let res = util::catch(|| {
                        let mut sys = match replay(model, hist) {
                            Ok(s) => s,
                            Err((i, f)) => return Err(f.with("step", i as u64)),
                        };
                        model.apply(&mut sys, &ev).map_err(|f| f.with("step", hist.len() as u64))?;
                        let fp2 = util::fnv64(&model.canon(&sys));
                        if once && (seen_ref.contains_key(&fp2) || !level_seen.lock().unwrap().insert(fp2)) {
                            probes_skipped.fetch_add(1, Ordering::Relaxed);
                            return Ok((fp2, None));
                        }
                        match model.probe(sys, &h2) {
                            Ok(class) => Ok((fp2, Some(class))),
                            Err(f) => {
                                failed_fps.lock().unwrap().insert(fp2);
                                Err(f)
                            }
                        }
                    });
                    match res {
                        Ok(Ok((fp2, class))) => {
                            if let Some(class) = class {
                                local_classes.insert(class);
                            }
                            local_out.push((h2, fp2));
                        }
                        Ok(Err(fail)) => {
                            ctx.add_violation(family, json!({"history": serde_json::to_value(&h2).unwrap()}), fail);
                        }
                        Err(p) => {
                            let fail = Fail::from_panic(&p)
                                .with("step", hist.len() as u64);
                            ctx.add_violation(family, json!({"history": serde_json::to_value(&h2).unwrap()}), fail);
                        }
                    }
                }
            }
            out.lock().unwrap().extend(local_out);
            classes.lock().unwrap().extend(local_classes);
        });
        if nondeterminism.load(Ordering::SeqCst) {
            // The same event history produced two different canonical states: the harness does not own some choice - or the
            // tree under check lets behaviour depend on values it draws at random. Not a verdict by itself: the family is
            // abandoned, the other families go on, and the run ends as a machinery error unless a violation is confirmed.
            let msg = format!("nondeterministic replay in family {} at depth {} (the same history led to different canonical states)", family, depth);
            eprintln!("MACHINERY ERROR: {}", msg);
            ctx.machinery.lock().unwrap().push(msg.clone());
            cap_hit = Some(msg);
            break;
        }
        if capped.load(Ordering::SeqCst) {
            cap_hit = Some(format!("wall cap {:?} hit while expanding depth {}", opts.wall_cap, depth));
            break;
        }
        // merge deterministically: sort successors by (history as JSON) so that the first history per state is stable
        let mut succ = out.into_inner().unwrap();
        let failed = failed_fps.into_inner().unwrap();
        if !failed.is_empty() {
            succ.retain(|(_, fp)| !failed.contains(fp));
        }
        succ.sort_by_cached_key(|(h, _)| serde_json::to_string(h).unwrap());
        let mut next: Vec<(Vec<M::Ev>, u64)> = vec![];
        let mut level: HashSet<u64> = HashSet::new();
        for (h, fp) in succ {
            level.insert(fp);
            if depth < 5 {
                repr.entry(fp).or_insert_with(|| serde_json::to_string(&h).unwrap());
            }
            if opts.dedup {
                if seen.contains_key(&fp) {
                    continue;
                }
                seen.insert(fp, ());
            }
            states += 1;
            if samples.len() < 3 && h.len() >= 3 {
                samples.push(json!({"history": serde_json::to_value(&h).unwrap(), "canonical_fingerprint": format!("{:016x}", fp)}));
            }
            next.push((h, fp));
        }
        per_depth.push(level);
        depth_completed = depth + 1;
        frontier = next;
        if states > opts.state_cap && depth_completed < opts.max_depth {
            cap_hit = Some(format!("state cap {} hit after depth {}", opts.state_cap, depth_completed));
            break;
        }
    }
    if samples.is_empty() {
        for (h, fp) in frontier.iter().take(2) {
            samples.push(json!({"history": serde_json::to_value(h).unwrap(), "canonical_fingerprint": format!("{:016x}", fp)}));
        }
        if samples.is_empty() {
            samples.push(json!({"history": [], "canonical_fingerprint": format!("{:016x}", init_fp)}));
        }
    }
    let mut stats = FamilyStats {
        name: family.to_string(),
        evaluations: executions.load(Ordering::SeqCst),
        distinct_outcomes: classes.lock().unwrap().len() as u64,
        nontrivial: states,
        exhaustive: cap_hit.is_none(),
        cap_hit,
        states,
        transitions: transitions.load(Ordering::SeqCst),
        depth_completed: depth_completed as u64,
        samples,
        ..Default::default()
    };
    stats.extra.insert("frontier_left".into(), json!(frontier.len()));
    if model.probe_once_per_state() && opts.dedup {
        stats.extra.insert("probes_skipped_state_already_probed".into(), json!(probes_skipped.load(Ordering::SeqCst)));
    }
    ctx.add_family(stats.clone());
    ExploreResult { stats, per_depth, repr }
}

/// Dedup audit: the same search without dedup to depth `d` must reach exactly the same canonical states per depth.
pub fn audit_dedup<M: Model>(ctx: &Ctx, family: &str, model: &M, with_dedup: &ExploreResult, d: usize, wall_cap: Duration)
where
    M::Ev: serde::de::DeserializeOwned,
{
    let diag: Option<Box<dyn Fn(u64, &HashMap<u64, String>, &HashMap<u64, String>)>> = Some(Box::new(|_fp, only, dedup| {
        // find, for a history h only reached without dedup, the representative with the same canonical prefix state
        let hjson = match only.get(&_fp) {
            Some(h) => h.clone(),
            None => return,
        };
        let h: Vec<M::Ev> = match serde_json::from_str(&hjson) {
            Ok(h) => h,
            Err(_) => return,
        };
        if h.is_empty() {
            return;
        }
        let prefix = &h[..h.len() - 1];
        let sys = match replay(model, prefix) {
            Ok(s) => s,
            Err(_) => return,
        };
        let pc = model.canon(&sys);
        let pfp = util::fnv64(&pc);
        eprintln!("    prefix canonical state {:016x}: {}", pfp, String::from_utf8_lossy(&pc));
        if let Some(rep) = dedup.get(&pfp) {
            eprintln!("    representative of that state in the deduplicated search: {}", rep);
            if let Ok(mut r) = serde_json::from_str::<Vec<M::Ev>>(rep) {
                r.push(h[h.len() - 1].clone());
                if let Ok(s2) = replay(model, &r) {
                    eprintln!("    successor via representative: {}", String::from_utf8_lossy(&model.canon(&s2)));
                }
            }
        }
        if let Ok(s1) = replay(model, &h) {
            eprintln!("    successor via this history  : {}", String::from_utf8_lossy(&model.canon(&s1)));
        }
    }));
    let name = format!("{}-audit", family);
    if !ctx.family_enabled(&name) {
        return;
    }
    let violations_before = ctx.violation_count.load(Ordering::SeqCst);
    let res = explore(ctx, &name, model, ExploreOpts { max_depth: d, wall_cap, state_cap: u64::MAX, dedup: false });
    if res.stats.cap_hit.is_some() {
        return;
    }
    if ctx.violation_count.load(Ordering::SeqCst) > 0 || violations_before > 0 {
        // The audit guards the verdict HELD against an over-coarse canonical form. With violations on the table the verdict is
        // VIOLATION anyway, and states behind a failed oracle are not expanded, so the two searches are not comparable.
        return;
    }
    // With dedup, a state first reached at depth k is not re-listed later; compare cumulative sets.
    let mut cum_a: HashSet<u64> = HashSet::new();
    let mut cum_b: HashSet<u64> = HashSet::new();
    for k in 0..=d.min(res.per_depth.len() - 1).min(with_dedup.per_depth.len() - 1) {
        cum_a.extend(with_dedup.per_depth[k].iter());
        cum_b.extend(res.per_depth[k].iter());
        if cum_a != cum_b {
            for fp in cum_b.difference(&cum_a).take(3) {
                let hjson = res.repr.get(fp).cloned().unwrap_or_default();
                eprintln!("  only without dedup: {:016x} via {}", fp, hjson);
                // diagnose: the representative of its prefix and the canonical forms of both successors
                if let Ok(h) = serde_json::from_str::<Vec<serde_json::Value>>(&hjson) {
                    if h.len() >= 2 {
                        let _ = h;
                    }
                }
            }
            if let Some(diag) = diag.as_ref() {
                for fp in cum_b.difference(&cum_a).take(2) {
                    diag(*fp, &res.repr, &with_dedup.repr);
                }
            }
            for fp in cum_a.difference(&cum_b).take(5) {
                eprintln!("  only with dedup: {:016x} via {}", fp, with_dedup.repr.get(fp).cloned().unwrap_or_default());
            }
            let msg = format!("dedup audit failed for {} at depth {}: {} states with dedup, {} without", family, k, cum_a.len(), cum_b.len());
            eprintln!("MACHINERY ERROR: {}", msg);
            ctx.machinery.lock().unwrap().push(msg);
            return;
        }
    }
}
