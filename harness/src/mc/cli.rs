//! Command line: `vcheck <Cxx> [--tier quick|thorough]`, `vcheck --replay <file>`, `vcheck --list`.
use super::{util, Ctx, Fail, Tier, Violation};
use crate::props;
use serde_json::{json, Map, Value};
use std::{collections::BTreeMap, fs, path::Path};

const VERIF_DIR: &str = "/verif";

#[derive(Deserialize, Debug, Clone)]
struct Finding {
    id: String,
    property: String,
    status: String,
    what: String,
    #[serde(default)]
    commit: Option<String>,
    #[serde(default, rename = "match")]
    matcher: BTreeMap<String, Value>,
}

#[derive(Deserialize, Debug)]
struct FindingsFile {
    findings: Vec<Finding>,
}

fn load_findings() -> Vec<Finding> {
    let p = format!("{}/known_findings.json", verif_dir());
    match fs::read_to_string(&p) {
        Ok(s) => match serde_json::from_str::<FindingsFile>(&s) {
            Ok(f) => f.findings,
            Err(e) => {
                eprintln!("MACHINERY ERROR: cannot parse {}: {}", p, e);
                std::process::exit(2)
            }
        },
        Err(_) => vec![],
    }
}

fn verif_dir() -> String {
    std::env::var("VERIF_DIR").unwrap_or_else(|_| VERIF_DIR.to_string())
}

fn value_matches(pattern: &Value, actual: Option<&Value>) -> bool {
    let actual = match actual {
        Some(a) => a,
        None => return pattern.is_null(),
    };
    match pattern {
        Value::Array(list) => list.iter().any(|p| p == actual),
        Value::Object(o) if o.contains_key("min") || o.contains_key("max") => {
            let a = match actual.as_f64() {
                Some(a) => a,
                None => return false,
            };
            o.get("min").and_then(|m| m.as_f64()).map(|m| a >= m).unwrap_or(true)
                && o.get("max").and_then(|m| m.as_f64()).map(|m| a <= m).unwrap_or(true)
        }
        Value::Object(o) if o.contains_key("contains") => {
            actual.as_str().map(|s| s.contains(o["contains"].as_str().unwrap_or("\u{0}"))).unwrap_or(false)
        }
        p => p == actual,
    }
}

fn finding_matches(f: &Finding, property: &str, v: &Violation) -> bool {
    if f.property != property || f.status != "open" || f.matcher.is_empty() {
        return false;
    }
    for (k, pat) in &f.matcher {
        let actual: Option<Value> = if k == "family" { Some(json!(v.family)) } else { v.fail.sig.get(k).cloned() };
        if !value_matches(pat, actual.as_ref()) {
            return false;
        }
    }
    true
}

fn usage() -> i32 {
    eprintln!("usage: vcheck <Cxx> [--tier quick|thorough] | vcheck --replay <file> | vcheck --list");
    2
}

pub fn main() -> i32 {
    util::install_hooks();
    let args: Vec<String> = std::env::args().skip(1).collect();
    if args.is_empty() {
        return usage();
    }
    if args[0] == "--list" {
        for p in props::registry() {
            println!("{} {} {}", p.id, p.level, p.title);
        }
        return 0;
    }
    if args[0] == "--replay" {
        if args.len() < 2 {
            return usage();
        }
        return replay_file(&args[1]);
    }
    let id = args[0].clone();
    let mut tier = match std::env::var("VERIF_TIER").ok().as_deref() {
        Some("thorough") => Tier::Thorough,
        _ => Tier::Quick,
    };
    let mut i = 1;
    while i < args.len() {
        match args[i].as_str() {
            "--tier" if i + 1 < args.len() => {
                tier = match args[i + 1].as_str() {
                    "quick" => Tier::Quick,
                    "thorough" => Tier::Thorough,
                    _ => return usage(),
                };
                i += 2;
            }
            _ => return usage(),
        }
    }
    let seed = std::env::var("VERIF_SEED").ok().and_then(|s| s.parse::<i64>().ok()).unwrap_or(0);
    let prop = match props::registry().into_iter().find(|p| p.id == id) {
        Some(p) => p,
        None => {
            eprintln!("unknown property {}", id);
            return 2;
        }
    };
    // replay files of earlier runs of this property are stale
    if let Ok(rd) = fs::read_dir(format!("{}/replays", verif_dir())) {
        for e in rd.flatten() {
            if e.file_name().to_string_lossy().starts_with(&format!("{}-", id)) {
                fs::remove_file(e.path()).ok();
            }
        }
    }
    // checks whose thorough bounds cost seconds (measured: C04 3 s, C08 12 s, C17 16 s, C19 1 s, C20 2 s) use them in both tiers
    let cheap = ["C04", "C08", "C17", "C19", "C20"];
    let bounds = if tier == Tier::Quick && cheap.contains(&id.as_str()) { Tier::Thorough } else { tier };
    let mut ctx = Ctx::new(&id, bounds, seed as u64);
    ctx.asked_tier = tier;
    let ctx = ctx;
    eprintln!("[{}] tier={} repo={} tree_hash={}", id, tier.name(), env!("VERIF_REPO"), env!("VERIF_REPO_HASH"));
    let running = std::sync::atomic::AtomicBool::new(true);
    std::thread::scope(|sc| {
        // watchdog: a registered case (families with a termination deadline) that does not come back is a violation
        sc.spawn(|| {
            while running.load(std::sync::atomic::Ordering::SeqCst) {
                std::thread::sleep(std::time::Duration::from_millis(250));
                if let Some(e) = util::watch_overdue() {
                    hang_exit(&ctx, &prop, seed, &e);
                }
            }
        });
        util::on_big_stack(|| (prop.run)(&ctx));
        running.store(false, std::sync::atomic::Ordering::SeqCst);
    });
    finish(&ctx, &prop, seed)
}

/// A case did not terminate: write its replay file and the evidence of what was covered so far, report, leave (the
/// spinning worker cannot be abandoned any other way). No replay confirmation here - `--replay` applies the same deadline.
fn hang_exit(ctx: &Ctx, prop: &props::Prop, seed: i64, e: &util::WatchEntry) -> ! {
    let secs = e.deadline.as_secs();
    let msg = format!("no result after {} s (deadline of this family): the execution hangs", secs);
    let body = json!({
        "property": ctx.property, "family": e.family, "case": e.case,
        "signature": {"kind": "hang", "deadline_secs": secs}, "message": msg,
        "cases_with_this_signature": 1, "replays_reproduced": "not replayed (would hang)", "more_cases": [],
        "tree_hash": env!("VERIF_REPO_HASH"),
    });
    fs::create_dir_all(format!("{}/replays", verif_dir())).ok();
    let name = format!("{}-{:016x}.json", ctx.property, util::fnv64(serde_json::to_string(&json!([e.family, e.case])).unwrap().as_bytes()));
    let path = format!("{}/replays/{}", verif_dir(), name);
    fs::write(&path, serde_json::to_string_pretty(&body).unwrap()).ok();
    println!("VIOLATION property={} replay={}", ctx.property, path);
    println!("  family={} cases=1 signature={{\"kind\":\"hang\"}} :: {} case={}", e.family, msg, truncate(&e.case.to_string(), 300));
    ctx.add_family(super::FamilyStats { name: format!("{}-interrupted", e.family), exhaustive: false, cap_hit: Some(format!("interrupted by a hanging case after {} s", secs)), ..Default::default() });
    let groups = ctx.violations.lock().unwrap().iter().map(|(_, (n, _))| *n).sum::<u64>() + 1;
    write_evidence(ctx, prop, seed, groups, &BTreeMap::new());
    println!("[{}] VIOLATED tier={} (interrupted: hanging case in family {}) wall={:.1}s", ctx.property, ctx.asked_tier.name(), e.family, ctx.start.elapsed().as_secs_f64());
    std::process::exit(1)
}

fn finish(ctx: &Ctx, prop: &props::Prop, seed: i64) -> i32 {
    let findings = load_findings();
    let groups = ctx.violations.lock().unwrap().clone();
    let mut known: BTreeMap<String, (Finding, u64, Value)> = BTreeMap::new();
    let mut exit = 0;
    let mut unreproduced = 0;
    let mut unlisted_groups: Vec<(u64, Violation, String)> = vec![];
    fs::create_dir_all(format!("{}/replays", verif_dir())).ok();
    for (key, (count, cases)) in &groups {
        if key.starts_with("OVERFLOW|") {
            println!("NOTE: more than {} distinct violation signatures; {} violations were not classified", super::MAX_GROUPS, count);
            println!("VIOLATION property={} replay={}/replays/UNCLASSIFIED-OVERFLOW", ctx.property, verif_dir());
            exit = exit.max(1);
            continue;
        }
        let v = &cases[0];
        if let Some(f) = findings.iter().find(|f| finding_matches(f, &ctx.property, v)) {
            let e = known.entry(f.id.clone()).or_insert((f.clone(), 0, v.case.clone()));
            e.1 += count;
            continue;
        }
        // confirm by replaying twice outside the explorer
        let mut supported = true;
        let mut hits = 0;
        let mut tries = 0;
        // two replays must both fail; if one does not (the violation depends on values we do not control, e.g. the
        // order of two random counters), replay up to 8 times and report how often it reproduced
        while tries < 8 {
            match util::on_big_stack(|| replay_case(&ctx.property, &v.family, &v.case)) {
                None => {
                    supported = false;
                    break;
                }
                Some(Ok(_)) => {}
                Some(Err(_)) => hits += 1,
            }
            tries += 1;
            if tries == 2 && hits == 2 {
                break;
            }
        }
        let flaky = supported && hits < tries;
        if supported && hits == 0 {
            eprintln!(
                "NOTE: a violation in family {} did not reproduce in {} replays (depends on values the harness does not control): {} case={}",
                v.family, tries, v.fail.msg, v.case
            );
            unreproduced += 1;
            continue;
        }
        let body = json!({
            "property": ctx.property, "family": v.family, "case": v.case,
            "signature": v.fail.sig, "message": v.fail.msg,
            "cases_with_this_signature": count,
            "replays_reproduced": format!("{}/{}", hits, tries),
            "more_cases": cases.iter().skip(1).map(|c| c.case.clone()).collect::<Vec<_>>(),
            "tree_hash": env!("VERIF_REPO_HASH"),
        });
        let text = serde_json::to_string_pretty(&body).unwrap();
        let name = format!(
            "{}-{:016x}.json",
            ctx.property,
            util::fnv64(serde_json::to_string(&json!([v.family, v.case])).unwrap().as_bytes())
        );
        let path = format!("{}/replays/{}", verif_dir(), name);
        fs::write(&path, text).ok();
        let mut v2 = v.clone();
        if flaky {
            v2.fail.msg = format!("[reproduced in {} of {} replays: depends on uncontrolled random values] {}", hits, tries, v2.fail.msg);
        }
        unlisted_groups.push((*count, v2, path));
    }
    for (id, (f, n, case)) in &known {
        println!(
            "KNOWN-FINDING: property={} {} {} [{} matching case(s) this run, e.g. {}]",
            ctx.property,
            id,
            f.what,
            n,
            truncate(&case.to_string(), 160)
        );
    }
    for (n, v, path) in &unlisted_groups {
        println!("VIOLATION property={} replay={}", ctx.property, path);
        println!(
            "  family={} cases={} signature={} :: {}",
            v.family,
            n,
            serde_json::to_string(&v.fail.sig).unwrap(),
            truncate(&v.fail.msg, 400)
        );
    }
    if !unlisted_groups.is_empty() && exit == 0 {
        exit = 1;
    }
    let machinery = ctx.machinery.lock().unwrap().clone();
    if !machinery.is_empty() {
        if exit == 1 {
            for m in &machinery {
                println!("NOTE: machinery problem in this run (does not affect the violations above, which were confirmed by replay): {}", m);
            }
        } else {
            for m in &machinery {
                eprintln!("MACHINERY ERROR: {}", m);
            }
            exit = 2;
        }
    }
    if unlisted_groups.is_empty() && unreproduced > 0 && exit == 0 {
        // nothing confirmed, but something failed once and never again: not a verdict
        eprintln!("MACHINERY ERROR: {} violation group(s) could not be reproduced on replay and no other violation was confirmed", unreproduced);
        exit = 2;
    }
    write_evidence(ctx, prop, seed, unlisted_groups.iter().map(|x| x.0).sum::<u64>(), &known);
    let fams = ctx.families.lock().unwrap();
    let evals: u64 = fams.iter().map(|f| f.evaluations).sum();
    println!(
        "[{}] {} tier={} families={} evaluations={} unlisted_violation_groups={} known_findings={} wall={:.1}s",
        ctx.property,
        if exit == 0 { "HELD" } else if exit == 1 { "VIOLATED" } else { "MACHINERY-ERROR" },
        ctx.asked_tier.name(),
        fams.len(),
        evals,
        unlisted_groups.len(),
        known.len(),
        ctx.start.elapsed().as_secs_f64()
    );
    exit
}

fn truncate(s: &str, n: usize) -> String {
    if s.len() <= n {
        s.to_string()
    } else {
        let mut end = n;
        while !s.is_char_boundary(end) {
            end -= 1;
        }
        format!("{}...", &s[..end])
    }
}

fn write_evidence(ctx: &Ctx, prop: &props::Prop, seed: i64, unlisted: u64, known: &BTreeMap<String, (Finding, u64, Value)>) {
    let fams = ctx.families.lock().unwrap();
    let evaluations: u64 = fams.iter().map(|f| f.evaluations).sum();
    let nontrivial: u64 = fams.iter().map(|f| f.nontrivial).sum();
    let states: u64 = fams.iter().map(|f| f.states).sum();
    let transitions: u64 = fams.iter().map(|f| f.transitions).sum();
    let exhaustive = !fams.is_empty() && fams.iter().all(|f| f.exhaustive);
    let mut samples: Vec<Value> = vec![];
    for f in fams.iter() {
        for s in f.samples.iter().take(2) {
            samples.push(json!({"family": f.name, "sample": s}));
        }
    }
    let families: Vec<Value> = fams
        .iter()
        .map(|f| {
            let mut m = Map::new();
            m.insert("name".into(), json!(f.name));
            m.insert("evaluations".into(), json!(f.evaluations));
            m.insert("distinct_outcome_classes".into(), json!(f.distinct_outcomes));
            m.insert("nontrivial".into(), json!(f.nontrivial));
            m.insert("exhaustive".into(), json!(f.exhaustive));
            if f.states > 0 {
                m.insert("states".into(), json!(f.states));
                m.insert("transitions".into(), json!(f.transitions));
                m.insert("depth_completed".into(), json!(f.depth_completed));
            }
            if let Some(c) = &f.cap_hit {
                m.insert("cap_hit".into(), json!(c));
            }
            for (k, v) in &f.extra {
                m.insert(k.clone(), v.clone());
            }
            Value::Object(m)
        })
        .collect();
    let mut coverage = Map::new();
    coverage.insert("evaluations".into(), json!(evaluations));
    coverage.insert("distinct_nontrivial".into(), json!(nontrivial));
    coverage.insert("rule".into(), json!(prop.rule));
    coverage.insert("samples".into(), json!(samples));
    coverage.insert("exhaustive".into(), json!(exhaustive));
    if prop.level == "model_checking" {
        coverage.insert("states".into(), json!(states));
        coverage.insert("transitions".into(), json!(transitions));
        // every explored transition is an execution of the implementation itself (no separate model)
        coverage.insert("traces_validated_against_impl".into(), json!(evaluations));
    }
    coverage.insert("families".into(), json!(families));
    coverage.insert(
        "known_findings_matched".into(),
        json!(known.iter().map(|(id, (f, n, _))| json!({"id": id, "what": f.what, "cases": n})).collect::<Vec<_>>()),
    );
    coverage.insert("tree_hash".into(), json!(env!("VERIF_REPO_HASH")));
    coverage.insert("repo".into(), json!(env!("VERIF_REPO")));
    let ev = json!({
        "property_id": ctx.property,
        "tier": ctx.asked_tier.name(),
        "seed": seed,
        "level": prop.level,
        "coverage": coverage,
        "assumptions": *ctx.assumptions.lock().unwrap(),
        "wall_s": ctx.start.elapsed().as_secs_f64(),
        "violations": unlisted,
    });
    let dir = format!("{}/evidence", verif_dir());
    fs::create_dir_all(&dir).ok();
    let path = format!("{}/{}.json", dir, ctx.property);
    if let Err(e) = fs::write(&path, serde_json::to_string_pretty(&ev).unwrap()) {
        eprintln!("MACHINERY ERROR: cannot write {}: {}", path, e);
        std::process::exit(2);
    }
}

fn replay_case(property: &str, family: &str, case: &Value) -> Option<super::CaseResult> {
    let prop = props::registry().into_iter().find(|p| p.id == property)?;
    match util::catch(|| (prop.replay)(family, case)) {
        Ok(r) => r,
        Err(p) => Some(Err(Fail::from_panic(&p))),
    }
}

fn replay_file(path: &str) -> i32 {
    let text = match fs::read_to_string(Path::new(path)) {
        Ok(t) => t,
        Err(e) => {
            eprintln!("cannot read {}: {}", path, e);
            return 2;
        }
    };
    let v: Value = match serde_json::from_str(&text) {
        Ok(v) => v,
        Err(e) => {
            eprintln!("cannot parse {}: {}", path, e);
            return 2;
        }
    };
    let property = v["property"].as_str().unwrap_or("");
    let family = v["family"].as_str().unwrap_or("");
    println!("replaying property={} family={} case={}", property, family, v["case"]);
    std::env::set_var("VERIF_SHOW_PANICS", "1");
    std::env::set_var("VERIF_TRACE", "1");
    if v["signature"]["kind"] == "hang" {
        // the recorded failure is non-termination: the same deadline applies to the replay
        let secs = v["signature"]["deadline_secs"].as_u64().unwrap_or(60);
        let (tx, rx) = std::sync::mpsc::channel();
        let (p2, f2, c2) = (property.to_string(), family.to_string(), v["case"].clone());
        std::thread::Builder::new().stack_size(256 << 20).spawn(move || tx.send(replay_case(&p2, &f2, &c2)).ok()).expect("spawn");
        return match rx.recv_timeout(std::time::Duration::from_secs(secs)) {
            Err(_) => {
                println!("REPLAY: oracle FAILED: no result after {} s (hang)", secs);
                println!("VIOLATION property={} replay={}", property, path);
                std::process::exit(1)
            }
            Ok(None) => 2,
            Ok(Some(Ok(class))) => {
                println!("REPLAY: oracle holds (outcome class {:016x}, terminated within {} s)", class, secs);
                0
            }
            Ok(Some(Err(f))) => {
                println!("REPLAY: oracle FAILED: {} signature={}", f.msg, serde_json::to_string(&f.sig).unwrap());
                println!("VIOLATION property={} replay={}", property, path);
                1
            }
        };
    }
    match util::on_big_stack(|| replay_case(property, family, &v["case"])) {
        None => {
            eprintln!("no replay support for family {}", family);
            2
        }
        Some(Ok(class)) => {
            println!("REPLAY: oracle holds (outcome class {:016x})", class);
            0
        }
        Some(Err(f)) => {
            println!("REPLAY: oracle FAILED: {} signature={}", f.msg, serde_json::to_string(&f.sig).unwrap());
            println!("VIOLATION property={} replay={}", property, path);
            1
        }
    }
}
