//! Shared machinery: tiers, case sweeps, panic capture, evidence, known findings, replay files.
pub mod alloc;
pub mod cli;
pub mod explore;
pub mod sweep;
pub mod util;

use serde_json::{json, Map, Value};
use std::{
    collections::BTreeMap,
    sync::{
        atomic::{AtomicU64, Ordering},
        Mutex,
    },
    time::Instant,
};

#[derive(Clone, Copy, PartialEq, Eq, Debug)]
pub enum Tier {
    Quick,
    Thorough,
}

impl Tier {
    pub fn name(self) -> &'static str {
        match self {
            Tier::Quick => "quick",
            Tier::Thorough => "thorough",
        }
    }
    pub fn pick<T>(self, quick: T, thorough: T) -> T {
        match self {
            Tier::Quick => quick,
            Tier::Thorough => thorough,
        }
    }
}

/// A failed oracle: structured signature (matched against known_findings.json) + human text.
#[derive(Clone, Debug)]
pub struct Fail {
    pub sig: BTreeMap<String, Value>,
    pub msg: String,
}

impl Fail {
    pub fn new(kind: &str, msg: impl Into<String>) -> Self {
        let mut sig = BTreeMap::new();
        sig.insert("kind".to_string(), json!(kind));
        Fail { sig, msg: msg.into() }
    }
    pub fn with(mut self, key: &str, val: impl Into<Value>) -> Self {
        self.sig.insert(key.to_string(), val.into());
        self
    }
}

impl Fail {
    /// A panic caught around a case. The signature carries the file and a normalised message (digits and quoted
    /// input text removed) so that one defect gives one signature.
    pub fn from_panic(p: &util::PanicInfo) -> Self {
        let mut class = String::new();
        let mut in_tick = false;
        for ch in p.msg.chars() {
            if ch == '`' {
                in_tick = !in_tick;
                class.push('`');
            } else if in_tick {
            } else if ch.is_ascii_digit() {
                if !class.ends_with('#') {
                    class.push('#');
                }
            } else {
                class.push(ch);
            }
        }
        Fail::new("panic", format!("panic: {} at {}", p.msg, p.short_location()))
            .with("panic_file", p.file())
            .with("panic_class", class)
    }
}

pub type CaseResult = Result<u64, Fail>;

/// A violation found by a check: which family of cases, the case itself (replayable), the failed oracle.
#[derive(Clone, Debug)]
pub struct Violation {
    pub family: String,
    pub case: Value,
    pub fail: Fail,
}

/// Per-family coverage counters.
#[derive(Clone, Debug, Default)]
pub struct FamilyStats {
    pub name: String,
    pub evaluations: u64,
    pub distinct_outcomes: u64,
    pub nontrivial: u64,
    pub exhaustive: bool,
    pub cap_hit: Option<String>,
    pub states: u64,
    pub transitions: u64,
    pub depth_completed: u64,
    pub samples: Vec<Value>,
    pub extra: Map<String, Value>,
}

pub struct Ctx {
    pub property: String,
    pub tier: Tier,
    pub seed: u64,
    pub start: Instant,
    pub families: Mutex<Vec<FamilyStats>>,
    /// violations grouped by (family, signature): exact count + the first few cases of each group
    pub violations: Mutex<BTreeMap<String, (u64, Vec<Violation>)>>,
    pub violation_count: AtomicU64,
    pub assumptions: Mutex<Vec<String>>,
    pub only_family: Option<String>,
    /// the tier that was asked for (recorded in evidence and output); `tier` above is the tier whose BOUNDS are used, which is
    /// the thorough one for checks whose thorough bounds cost seconds
    pub asked_tier: Tier,
    /// problems of the machinery itself (nondeterministic replay, failed dedup audit): exit 2 unless a violation was confirmed,
    /// in which case they are printed as notes next to it
    pub machinery: Mutex<Vec<String>>,
}

pub const MAX_GROUPS: usize = 5000;
pub const MAX_PER_GROUP: usize = 3;

impl Ctx {
    pub fn new(property: &str, tier: Tier, seed: u64) -> Self {
        Ctx {
            property: property.to_string(),
            tier,
            seed,
            start: Instant::now(),
            families: Mutex::new(vec![]),
            violations: Mutex::new(BTreeMap::new()),
            violation_count: AtomicU64::new(0),
            assumptions: Mutex::new(vec![]),
            only_family: std::env::var("VERIF_FAMILY").ok(),
            asked_tier: tier,
            machinery: Mutex::new(vec![]),
        }
    }

    pub fn assume(&self, text: &str) {
        self.assumptions.lock().unwrap().push(text.to_string());
    }

    pub fn family_enabled(&self, name: &str) -> bool {
        match &self.only_family {
            Some(f) => f.split(',').any(|x| x == name),
            None => true,
        }
    }

    pub fn add_violation(&self, family: &str, case: Value, fail: Fail) {
        self.violation_count.fetch_add(1, Ordering::SeqCst);
        let key = format!("{}|{}", family, serde_json::to_string(&fail.sig).unwrap());
        let mut v = self.violations.lock().unwrap();
        let n = v.len();
        match v.get_mut(&key) {
            Some(e) => {
                e.0 += 1;
                if e.1.len() < MAX_PER_GROUP {
                    e.1.push(Violation { family: family.to_string(), case, fail });
                }
            }
            None if n < MAX_GROUPS => {
                v.insert(key, (1, vec![Violation { family: family.to_string(), case, fail }]));
            }
            None => {
                v.entry("OVERFLOW|{}".to_string()).or_insert((0, vec![])).0 += 1;
            }
        }
    }

    pub fn add_family(&self, stats: FamilyStats) {
        eprintln!(
            "[{}] family {:<28} evaluations={} distinct_outcomes={} nontrivial={} states={} transitions={} depth={} exhaustive={}{} t={:.1}s",
            self.property,
            stats.name,
            stats.evaluations,
            stats.distinct_outcomes,
            stats.nontrivial,
            stats.states,
            stats.transitions,
            stats.depth_completed,
            stats.exhaustive,
            stats.cap_hit.as_ref().map(|c| format!(" CAP:{}", c)).unwrap_or_default(),
            self.start.elapsed().as_secs_f64()
        );
        self.families.lock().unwrap().push(stats);
    }
}
