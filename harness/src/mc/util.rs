//! Panic capture, worker threads with large stacks, small helpers.
use std::{
    cell::RefCell,
    collections::HashMap,
    panic::{self, AssertUnwindSafe},
    sync::Once,
};

thread_local! {
    static LAST_PANIC: RefCell<Option<(String, String)>> = RefCell::new(None);
    static LOG_CAPTURE: RefCell<Option<Vec<(log::Level, String)>>> = RefCell::new(None);
}

static HOOK: Once = Once::new();

/// Installs a silent panic hook that remembers (message, location) per thread, and a capturing logger.
pub fn install_hooks() {
    HOOK.call_once(|| {
        panic::set_hook(Box::new(|info| {
            let msg = if let Some(s) = info.payload().downcast_ref::<&str>() {
                s.to_string()
            } else if let Some(s) = info.payload().downcast_ref::<String>() {
                s.clone()
            } else {
                "<non-string panic>".to_string()
            };
            let loc = info.location().map(|l| format!("{}:{}", l.file(), l.line())).unwrap_or_default();
            if std::env::var("VERIF_SHOW_PANICS").is_ok() {
                eprintln!("panic: {} at {}", msg, loc);
            }
            LAST_PANIC.with(|p| *p.borrow_mut() = Some((msg, loc)));
        }));
        log::set_boxed_logger(Box::new(CaptureLogger)).ok();
        log::set_max_level(log::LevelFilter::Warn);
    });
}

struct CaptureLogger;

impl log::Log for CaptureLogger {
    fn enabled(&self, metadata: &log::Metadata) -> bool {
        metadata.level() <= log::Level::Warn
    }
    fn log(&self, record: &log::Record) {
        if self.enabled(record.metadata()) {
            LOG_CAPTURE.with(|c| {
                if let Some(v) = c.borrow_mut().as_mut() {
                    v.push((record.level(), format!("{}", record.args())));
                }
            })
        }
    }
    fn flush(&self) {}
}

/// Start capturing warn/error log lines of this thread.
pub fn log_capture_start() {
    LOG_CAPTURE.with(|c| *c.borrow_mut() = Some(vec![]))
}

pub fn log_capture_take() -> Vec<(log::Level, String)> {
    LOG_CAPTURE.with(|c| c.borrow_mut().take().unwrap_or_default())
}

/// Drains captured lines but keeps capturing.
pub fn log_capture_drain() -> Vec<(log::Level, String)> {
    LOG_CAPTURE.with(|c| c.borrow_mut().as_mut().map(std::mem::take).unwrap_or_default())
}

#[derive(Debug, Clone)]
pub struct PanicInfo {
    pub msg: String,
    pub location: String,
}

impl PanicInfo {
    /// Location with the repository prefix removed and without the line number's volatility kept (file:line).
    pub fn short_location(&self) -> String {
        let repo = env!("VERIF_REPO");
        if self.location.contains("/out/main_extract.rs") {
            return "src/main.rs(extracted):0".to_string();
        }
        if let Some(pos) = self.location.find("/registry/src/") {
            // dependency: crate-version/path
            let rest = &self.location[pos + "/registry/src/".len()..];
            return rest.split_once('/').map(|x| x.1.to_string()).unwrap_or(rest.to_string());
        }
        self.location.strip_prefix(repo).map(|s| s.trim_start_matches('/').to_string()).unwrap_or(self.location.clone())
    }
    pub fn file(&self) -> String {
        let s = self.short_location();
        s.rsplit_once(':').map(|x| x.0.to_string()).unwrap_or(s)
    }
}

/// Runs `f`, turning an unwinding panic into Err((message, location)).
pub fn catch<R>(f: impl FnOnce() -> R) -> Result<R, PanicInfo> {
    LAST_PANIC.with(|p| *p.borrow_mut() = None);
    match panic::catch_unwind(AssertUnwindSafe(f)) {
        Ok(r) => Ok(r),
        Err(_) => {
            let (msg, location) = LAST_PANIC.with(|p| p.borrow_mut().take()).unwrap_or_default();
            Err(PanicInfo { msg, location })
        }
    }
}

pub const WORKER_STACK: usize = 256 << 20;

pub fn workers() -> usize {
    std::env::var("VERIF_THREADS").ok().and_then(|s| s.parse().ok()).unwrap_or(16)
}

/// Runs `f(worker_index)` on `n` threads with large stacks (MsgBuffer is a 64 KiB stack object, several deep).
pub fn run_workers<R: Send>(n: usize, f: impl Fn(usize) -> R + Sync) -> Vec<R> {
    std::thread::scope(|s| {
        let handles: Vec<_> = (0..n)
            .map(|i| {
                let f = &f;
                std::thread::Builder::new()
                    .stack_size(WORKER_STACK)
                    .spawn_scoped(s, move || f(i))
                    .expect("spawn worker")
            })
            .collect();
        handles
            .into_iter()
            .map(|h| match h.join() {
                Ok(r) => r,
                Err(_) => {
                    eprintln!("MACHINERY ERROR: worker thread panicked outside a guarded case");
                    std::process::exit(2)
                }
            })
            .collect()
    })
}

/// Runs `f` on one thread with a large stack and returns its result.
pub fn on_big_stack<R: Send>(f: impl FnOnce() -> R + Send) -> R {
    std::thread::scope(|s| {
        std::thread::Builder::new().stack_size(WORKER_STACK).spawn_scoped(s, f).expect("spawn").join().unwrap_or_else(
            |_| {
                eprintln!("MACHINERY ERROR: thread panicked outside a guarded case");
                std::process::exit(2)
            },
        )
    })
}

pub fn hex(b: &[u8]) -> String {
    let mut s = String::with_capacity(b.len() * 2);
    for x in b {
        s.push_str(&format!("{:02x}", x));
    }
    s
}

pub fn unhex(s: &str) -> Vec<u8> {
    (0..s.len() / 2).map(|i| u8::from_str_radix(&s[2 * i..2 * i + 2], 16).expect("hex")).collect()
}

/// Renames fresh values (keys, ids, random bytes) by order of first occurrence.
#[derive(Default)]
pub struct Renamer {
    map: HashMap<Vec<u8>, u32>,
}

impl Renamer {
    pub fn id(&mut self, v: &[u8]) -> u32 {
        let n = self.map.len() as u32;
        *self.map.entry(v.to_vec()).or_insert(n)
    }
    pub fn opt(&mut self, v: Option<&[u8]>) -> i64 {
        match v {
            Some(v) => self.id(v) as i64,
            None => -1,
        }
    }
}

/// FNV-1a 64 over bytes (stable across runs; used for fingerprints of canonical states and outcome classes).
pub fn fnv64(data: &[u8]) -> u64 {
    let mut h: u64 = 0xcbf29ce484222325;
    for b in data {
        h ^= *b as u64;
        h = h.wrapping_mul(0x100000001b3);
    }
    h
}

pub fn be96_to_u128(n: &[u8; 12]) -> u128 {
    let mut v: u128 = 0;
    for b in n {
        v = (v << 8) | *b as u128;
    }
    v
}


// ---------- watchdog for cases that must terminate ----------

#[derive(Clone)]
pub struct WatchEntry {
    pub since: std::time::Instant,
    pub deadline: std::time::Duration,
    pub family: String,
    pub case: serde_json::Value,
}

static WATCH: std::sync::Mutex<Vec<Option<WatchEntry>>> = std::sync::Mutex::new(Vec::new());

pub struct WatchGuard(usize);

/// Registers the case this thread is about to execute; the watchdog thread of the command line reports it as a hang
/// (the process cannot abandon a spinning thread, so it reports and exits) when it is still registered after `deadline`.
pub fn watch_enter(family: &str, case: serde_json::Value, deadline: std::time::Duration) -> WatchGuard {
    let e = WatchEntry { since: std::time::Instant::now(), deadline, family: family.to_string(), case };
    let mut w = WATCH.lock().unwrap();
    if let Some(i) = w.iter().position(|x| x.is_none()) {
        w[i] = Some(e);
        WatchGuard(i)
    } else {
        w.push(Some(e));
        WatchGuard(w.len() - 1)
    }
}

impl Drop for WatchGuard {
    fn drop(&mut self) {
        if let Ok(mut w) = WATCH.lock() {
            w[self.0] = None;
        }
    }
}

pub fn watch_overdue() -> Option<WatchEntry> {
    let w = WATCH.lock().unwrap();
    w.iter().flatten().find(|e| e.since.elapsed() > e.deadline).cloned()
}
