//! E3/E4 engine: complete enumeration of a finite case space, one real execution per case, in parallel.
use super::{util, CaseResult, Ctx, Fail, FamilyStats};
use serde::Serialize;
use serde_json::{json, Value};
use std::{
    collections::HashSet,
    sync::{
        atomic::{AtomicU64, Ordering},
        Mutex,
    },
};

pub struct SweepOpts {
    /// outcome classes (the u64 returned by a passing case) counted as trivial (e.g. "rejected at first check")
    pub trivial_classes: Vec<u64>,
    pub exhaustive: bool,
    pub chunk: u64,
    /// for statements that promise termination ("never a hang"): a case still running after this many seconds is
    /// reported as a violation of kind `hang` by the watchdog (which then ends the process)
    pub deadline_secs: Option<u64>,
}

impl Default for SweepOpts {
    fn default() -> Self {
        SweepOpts { trivial_classes: vec![], exhaustive: true, chunk: 64, deadline_secs: None }
    }
}

/// Enumerates cases `gen(0) .. gen(n-1)` completely; runs `run` on each under panic capture.
/// A passing case returns an outcome class; distinct classes are counted (vacuity indicator).
pub fn sweep_range<C: Serialize>(
    ctx: &Ctx, family: &str, n: u64, opts: SweepOpts, gen: impl Fn(u64) -> C + Sync, run: impl Fn(&C) -> CaseResult + Sync,
) -> FamilyStats {
    if !ctx.family_enabled(family) {
        return FamilyStats::default();
    }
    let next = AtomicU64::new(0);
    let classes: Mutex<HashSet<u64>> = Mutex::new(HashSet::new());
    let nontrivial = AtomicU64::new(0);
    let done = AtomicU64::new(0);
    let samples: Mutex<Vec<Value>> = Mutex::new(vec![]);
    let nthreads = util::workers().min(((n + opts.chunk - 1) / opts.chunk).max(1) as usize);
    util::run_workers(nthreads, |_| {
        let mut local: HashSet<u64> = HashSet::new();
        let mut local_nt = 0u64;
        let mut local_done = 0u64;
        loop {
            let lo = next.fetch_add(opts.chunk, Ordering::SeqCst);
            if lo >= n {
                break;
            }
            let hi = (lo + opts.chunk).min(n);
            for i in lo..hi {
                let case = gen(i);
                if i == 0 || i == n / 2 || i == n - 1 {
                    samples.lock().unwrap().push(json!({"index": i, "case": serde_json::to_value(&case).unwrap()}));
                }
                let guard = opts.deadline_secs.map(|d| util::watch_enter(family, serde_json::to_value(&case).unwrap(), std::time::Duration::from_secs(d)));
                let res = match util::catch(|| run(&case)) {
                    Ok(r) => r,
                    Err(p) => Err(Fail::from_panic(&p)),
                };
                drop(guard);
                local_done += 1;
                match res {
                    Ok(class) => {
                        if !opts.trivial_classes.contains(&class) {
                            local_nt += 1;
                        }
                        local.insert(class);
                    }
                    Err(fail) => {
                        ctx.add_violation(family, serde_json::to_value(&case).unwrap(), fail);
                    }
                }
            }
        }
        classes.lock().unwrap().extend(local);
        nontrivial.fetch_add(local_nt, Ordering::SeqCst);
        done.fetch_add(local_done, Ordering::SeqCst);
    });
    let mut samples = samples.into_inner().unwrap();
    samples.sort_by_key(|s| s["index"].as_u64());
    let stats = FamilyStats {
        name: family.to_string(),
        evaluations: done.load(Ordering::SeqCst),
        distinct_outcomes: classes.lock().unwrap().len() as u64,
        nontrivial: nontrivial.load(Ordering::SeqCst),
        exhaustive: opts.exhaustive,
        samples,
        ..Default::default()
    };
    ctx.add_family(stats.clone());
    stats
}

/// Same for an explicit list of cases.
/// Same for an explicit list of cases. Duplicate cases (equal serialized form) are dropped first, so that
/// every evaluation is a distinct case.
pub fn sweep_list<C: Serialize + Sync>(
    ctx: &Ctx, family: &str, cases: &[C], opts: SweepOpts, run: impl Fn(&C) -> CaseResult + Sync,
) -> FamilyStats {
    if !ctx.family_enabled(family) {
        return FamilyStats::default();
    }
    let mut seen: HashSet<(u64, u64)> = HashSet::with_capacity(cases.len());
    let mut idx: Vec<usize> = Vec::with_capacity(cases.len());
    for (i, c) in cases.iter().enumerate() {
        let s = serde_json::to_vec(c).unwrap();
        let key = (util::fnv64(&s), s.len() as u64 ^ (util::fnv64(&s[s.len() / 2..]) << 1));
        if seen.insert(key) {
            idx.push(i);
        }
    }
    sweep_range(ctx, family, idx.len() as u64, opts, |i| &cases[idx[i as usize]], |c| run(*c))
}
