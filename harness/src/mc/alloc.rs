//! Counting allocator: per-thread current/peak heap usage, so that "no oversized allocation" is an oracle.
use std::{
    alloc::{GlobalAlloc, Layout, System},
    cell::Cell,
};

pub struct Counting;

thread_local! {
    static CUR: Cell<isize> = const { Cell::new(0) };
    static PEAK: Cell<isize> = const { Cell::new(0) };
    static BASE: Cell<isize> = const { Cell::new(0) };
}

unsafe impl GlobalAlloc for Counting {
    unsafe fn alloc(&self, layout: Layout) -> *mut u8 {
        let _ = CUR.try_with(|c| {
            let v = c.get() + layout.size() as isize;
            c.set(v);
            let _ = PEAK.try_with(|p| {
                if v > p.get() {
                    p.set(v)
                }
            });
        });
        System.alloc(layout)
    }

    unsafe fn dealloc(&self, ptr: *mut u8, layout: Layout) {
        let _ = CUR.try_with(|c| c.set(c.get() - layout.size() as isize));
        System.dealloc(ptr, layout)
    }
}

/// Resets the peak to the current level.
pub fn reset_peak() {
    let cur = CUR.with(|c| c.get());
    PEAK.with(|p| p.set(cur));
    BASE.with(|b| b.set(cur));
}

/// Peak heap growth (bytes) on this thread since the last `reset_peak`.
pub fn peak_since_reset() -> usize {
    (PEAK.with(|p| p.get()) - BASE.with(|b| b.get())).max(0) as usize
}
