//! C03 Replay window: a captured datagram dies within two housekeeping ticks.
//! E1: explicit-state search over a REAL CryptoCore pair: all schedules of seal / deliver(any earlier datagram) /
//! forge / tick / rotate up to a depth bound, verdict of every delivery compared with a threshold computed from
//! the recorded history only; in every reached state every datagram sealed so far is additionally probed.
use super::{common::*, Prop};
use crate::{
    crypto::verif as cv,
    mc::{
        explore::{self, ExploreOpts, Model},
        sweep::{sweep_list, SweepOpts},
        util, CaseResult, Ctx, Fail, Tier,
    },
    util::MsgBuffer,
};
use ring::aead::{LessSafeKey, UnboundKey};
use serde_json::Value;
use std::time::Duration;

pub fn prop() -> Prop {
    Prop {
        id: "C03",
        title: "Replay window: a captured datagram dies within two housekeeping ticks",
        level: "model_checking",
        rule: "explicit-state BFS by history replay over a real CryptoCore pair per cipher; alphabet Seal (<=5), Deliver(i) (any sealed datagram, any number of times), \
               Forge(i) (counter raised, fails authentication), Tick, Rotate (next key id at receiver then sender); states deduplicated on a canonical form \
               (key classes, window thresholds and counters as offsets, oracle ages); every transition is an execution of the implementation; in every state all \
               datagrams sealed so far plus a fresh one are probed against the history-only oracle. Plus: PeerCrypto lifetimes (3 ciphers x 2 orientations x 260/1300 \
               rounds, every datagram replayed 0/1/2/3/5 ticks later) and node-level verbatim re-injections (C09's executions with the replay-window oracle). distinct_nontrivial = canonical states",
        run,
        replay,
    }
}

#[derive(Clone, Debug, Serialize, Deserialize, PartialEq)]
pub enum Ev {
    Seal,
    Deliver(usize),
    Forge(usize),
    Tick,
    Rotate,
}

pub struct Dgram {
    bytes: Vec<u8>,
    slot: usize,
    key_class: u32,
    counter: u128,
    /// counter relative to the first send counter of the key it was sealed with
    offset: u128,
    payload: Vec<u8>,
}

pub struct Sys {
    tx: cv::CryptoCore,
    rx: cv::CryptoCore,
    dgrams: Vec<Dgram>,
    /// key class currently installed per slot at the receiver (None = dummy key)
    rx_slot_key: [Option<u32>; 4],
    tx_slot_key: [Option<u32>; 4],
    /// first send nonce of the sender's key per slot (base for offsets)
    base: [u128; 4],
    ticks: u64,
    /// acceptances: (slot, key class, counter offset within its key, tick count at acceptance)
    accepted: Vec<(usize, u32, u128, u64)>,
    rotations: u32,
    seals: u32,
}

pub struct M {
    pub algo: u8,
    pub max_seals: u32,
    pub max_rotations: u32,
}

fn counter_of(bytes: &[u8]) -> u128 {
    // envelope: key id, 7 counter bytes = nonce[5..12]; the receiver assumes msb 0x80 (sender half = true here)
    let mut n = [0u8; 12];
    n[5..].copy_from_slice(&bytes[1..8]);
    n[0] = 0x80;
    util::be96_to_u128(&n)
}

impl M {
    /// History-only oracle: must this delivery be accepted?
    fn expect_accept(&self, s: &Sys, d: &Dgram) -> bool {
        if s.rx_slot_key[d.slot] != Some(d.key_class) {
            return false;
        }
        let threshold = s
            .accepted
            .iter()
            .filter(|(slot, kc, _, t)| *slot == d.slot && *kc == d.key_class && *t + 2 <= s.ticks)
            .map(|(_, _, c, _)| *c)
            .max();
        match threshold {
            Some(t) => d.offset > t,
            None => true,
        }
    }

    fn deliver(&self, s: &mut Sys, i: usize, record: bool) -> Result<bool, Fail> {
        let mut buf = MsgBuffer::new(SPACE);
        load(&mut buf, &s.dgrams[i].bytes);
        let want = self.expect_accept(s, &s.dgrams[i]);
        let got = s.rx.decrypt(&mut buf);
        match (&got, want) {
            (Ok(()), true) => {
                if buf.message() != &s.dgrams[i].payload[..] {
                    return Err(Fail::new("payload_mismatch", format!("datagram {} opened to other bytes", i)));
                }
                if record {
                    let d = &s.dgrams[i];
                    s.accepted.push((d.slot, d.key_class, d.offset, s.ticks));
                }
                Ok(true)
            }
            (Err(_), false) => Ok(false),
            (Ok(()), false) => Err(Fail::new(
                "replay_accepted",
                format!("datagram {} (slot {}, counter offset {}) accepted after {} ticks although something at least as new was accepted two ticks earlier (or its key is gone)",
                    i, s.dgrams[i].slot, s.dgrams[i].offset, s.ticks),
            )
            .with("cipher", algo_name(self.algo))),
            (Err(e), true) => Err(Fail::new(
                "fresh_rejected",
                format!("datagram {} (slot {}, counter offset {}) rejected ({}) although it is inside the window / newer than everything accepted",
                    i, s.dgrams[i].slot, s.dgrams[i].offset, e),
            )
            .with("cipher", algo_name(self.algo))),
        }
    }

    fn seal(&self, s: &mut Sys) -> usize {
        let n = s.dgrams.len();
        let payload: Vec<u8> = (0..8).map(|k| (n as u8) * 16 + k).collect();
        let mut buf = MsgBuffer::new(SPACE);
        load(&mut buf, &payload);
        buf.set_length(payload.len());
        // encrypt needs room for the tag behind the payload
        s.tx.encrypt(&mut buf);
        let bytes = buf.message().to_vec();
        let slot = (bytes[0] % 4) as usize;
        let counter = counter_of(&bytes);
        let d = Dgram { counter, offset: counter.wrapping_sub(s.base[slot]), slot, key_class: s.tx_slot_key[slot].unwrap(), bytes, payload };
        s.dgrams.push(d);
        n
    }
}

impl Model for M {
    type Ev = Ev;
    type Sys = Sys;

    fn init(&self) -> Sys {
        let (tx, rx) = cv::create_dummy_pair(algo_by_id(self.algo));
        let v = tx.verif_state();
        let mut base = [0u128; 4];
        for k in 0..4 {
            base[k] = util::be96_to_u128(&v.keys[k].send_nonce);
        }
        Sys {
            tx,
            rx,
            dgrams: vec![],
            rx_slot_key: [Some(0), None, None, None],
            tx_slot_key: [Some(0), None, None, None],
            base,
            ticks: 0,
            accepted: vec![],
            rotations: 0,
            seals: 0,
        }
    }

    fn enabled(&self, s: &Sys, _hist: &[Ev]) -> Vec<Ev> {
        let mut v = vec![];
        if s.seals < self.max_seals {
            v.push(Ev::Seal);
        }
        for i in 0..s.dgrams.len() {
            v.push(Ev::Deliver(i));
        }
        v.push(Ev::Tick);
        for i in 0..s.dgrams.len() {
            v.push(Ev::Forge(i));
        }
        if s.rotations < self.max_rotations {
            v.push(Ev::Rotate);
        }
        v
    }

    fn apply(&self, s: &mut Sys, ev: &Ev) -> Result<(), Fail> {
        match ev {
            Ev::Seal => {
                s.seals += 1;
                self.seal(s);
            }
            Ev::Deliver(i) => {
                self.deliver(s, *i, true)?;
            }
            Ev::Forge(i) => {
                let mut bytes = s.dgrams[*i].bytes.clone();
                // raise the counter field by 100 (with carry)
                let mut carry = 100u32;
                for k in (1..8).rev() {
                    let v = bytes[k] as u32 + carry;
                    bytes[k] = v as u8;
                    carry = v >> 8;
                }
                let mut buf = MsgBuffer::new(SPACE);
                load(&mut buf, &bytes);
                if s.rx.decrypt(&mut buf).is_ok() {
                    return Err(Fail::new("forgery_accepted", format!("datagram {} with raised counter opened", i)).with("cipher", algo_name(self.algo)));
                }
            }
            Ev::Tick => {
                s.rx.every_second();
                s.ticks += 1;
            }
            Ev::Rotate => {
                s.rotations += 1;
                let id = s.rotations as u64;
                let algo = algo_by_id(self.algo);
                let mk = || LessSafeKey::new(UnboundKey::new(algo, &vec![id as u8 ^ 0x5a; algo.key_len()]).unwrap());
                s.rx.rotate_key(mk(), id, false);
                s.tx.rotate_key(mk(), id, true);
                let slot = (id % 4) as usize;
                s.rx_slot_key[slot] = Some(s.rotations);
                s.tx_slot_key[slot] = Some(s.rotations);
                s.base[slot] = util::be96_to_u128(&s.tx.verif_state().keys[slot].send_nonce);
            }
        }
        Ok(())
    }

    fn canon(&self, s: &Sys) -> Vec<u8> {
        let rx = s.rx.verif_state();
        let tx = s.tx.verif_state();
        let mut out = String::new();
        let off = |slot: usize, v: &[u8; 12]| -> i128 {
            let x = util::be96_to_u128(v);
            if x < 2 {
                // zero, or zero + 1 after a tick without any accepted datagram: absolute (never a real counter,
                // real counters carry the sender's top byte 0x80)
                -1 - x as i128
            } else {
                (x.wrapping_sub(s.base[slot])) as i128
            }
        };
        out.push_str(&format!("cur={} ", tx.current_key));
        for k in 0..4 {
            out.push_str(&format!(
                "[{:?}/{:?} seen={} next={} min={} send={}]",
                s.rx_slot_key[k],
                s.tx_slot_key[k],
                off(k, &rx.keys[k].seen_nonce),
                off(k, &rx.keys[k].next_min_nonce),
                off(k, &rx.keys[k].min_nonce),
                off(k, &tx.keys[k].send_nonce)
            ));
        }
        for d in &s.dgrams {
            out.push_str(&format!("d({},{},{})", d.slot, d.key_class, d.offset));
        }
        // oracle-relevant part of the history: per (slot,key) the max accepted counter by age class 0,1,>=2
        let mut ages: std::collections::BTreeMap<(usize, u32, u64), u128> = Default::default();
        for (slot, kc, c, t) in &s.accepted {
            if s.rx_slot_key[*slot] != Some(*kc) {
                continue;
            }
            let age = (s.ticks - t).min(2);
            let e = ages.entry((*slot, *kc, age)).or_insert(0);
            *e = (*e).max(*c + 1);
        }
        out.push_str(&format!("{:?} r={} s={}", ages, s.rotations, s.seals));
        out.into_bytes()
    }

    fn probe(&self, mut s: Sys, _hist: &[Ev]) -> Result<u64, Fail> {
        // verdict of every datagram in this state (seen may rise, thresholds do not move without a tick)
        let mut verdicts = vec![];
        for i in 0..s.dgrams.len() {
            verdicts.push(self.deliver(&mut s, i, false)? as u8);
        }
        // a datagram newer than everything seen is always accepted
        let n = self.seal(&mut s);
        if !self.deliver(&mut s, n, false)? {
            return Err(Fail::new("fresh_rejected", "a freshly sealed datagram was rejected").with("cipher", algo_name(self.algo)));
        }
        Ok(util::fnv64(&verdicts))
    }
}

// ---------- PeerCrypto level: the tick must reach the core in EVERY round of a connection's life ----------

#[derive(Serialize, Deserialize, Clone, Debug)]
pub struct LifeCase {
    pub cipher: String,
    pub a_wins: bool,
    pub rounds: u32,
}

/// Two real PeerCrypto ends after a genuine handshake; every round: both tick (rotation messages are delivered), one data
/// datagram each way; every datagram is replayed 0, 1, 2, 3 and 5 rounds after its delivery and the verdict compared with
/// the history-only rule (accepted only if nothing at least as new was accepted two ticks earlier).
pub fn run_life(c: &LifeCase) -> CaseResult {
    use crate::crypto::MessageResult;
    let (mut a, mut b, first) = super::c07::established_pair(&[&c.cipher], c.a_wins)?;
    if let Some(bytes) = first {
        let mut buf = MsgBuffer::new(SPACE);
        load(&mut buf, &bytes);
        a.handle_message(&mut buf).ok();
    }
    // (round delivered, direction a->b, wire bytes)
    let mut sent: Vec<(u32, bool, Vec<u8>)> = vec![];
    let mut late_ok = 0u64;
    for round in 0..c.rounds {
        for is_a in [true, false] {
            let mut out = MsgBuffer::new(SPACE);
            let r = if is_a { a.every_second(&mut out) } else { b.every_second(&mut out) };
            if let Ok(MessageResult::Reply) = r {
                let bytes = out.message().to_vec();
                let mut buf = MsgBuffer::new(SPACE);
                load(&mut buf, &bytes);
                let rx = if is_a { &mut b } else { &mut a };
                rx.handle_message(&mut buf).ok();
            }
        }
        for a_to_b in [true, false] {
            let (tx, rx) = if a_to_b { (&mut a, &mut b) } else { (&mut b, &mut a) };
            let (_, _, wire) = probe(tx, rx, 0, format!("round {}", round).as_bytes()).map_err(|e| Fail::new("payload_lost", format!("round {}: {}", round, e)))?;
            sent.push((round, a_to_b, wire));
        }
        // replays
        for (r0, a_to_b, wire) in sent.iter().filter(|s| [0, 1, 2, 3, 5].contains(&(round - s.0))) {
            let age = round - r0;
            let rx = if *a_to_b { &mut b } else { &mut a };
            let mut buf = MsgBuffer::new(SPACE);
            load(&mut buf, wire);
            let accepted = rx.handle_message(&mut buf).is_ok();
            // traffic flows every round, so something newer was accepted in every later round: two ticks after its
            // delivery a datagram is outside the window; inside the window (age 0, 1) it is accepted
            if age >= 2 && accepted {
                return Err(Fail::new("replay_accepted", format!("datagram delivered in round {} accepted again in round {} ({} ticks later)", r0, round, age)).with("level", "peer_crypto").with("near_rotation", (r0 % 120) >= 117 || (r0 % 120) <= 1));
            }
            if age <= 1 && !accepted {
                return Err(Fail::new("fresh_rejected", format!("datagram delivered in round {} rejected in round {} (inside the window)", r0, round)).with("level", "peer_crypto"));
            }
            if age >= 2 {
                late_ok += 1;
            }
        }
        sent.retain(|s| round - s.0 < 6);
    }
    Ok(late_ok)
}

pub fn run(ctx: &Ctx) {
    let mut lives = vec![];
    for cipher in ["aes128", "aes256", "chacha20"] {
        for a_wins in [true, false] {
            lives.push(LifeCase { cipher: cipher.to_string(), a_wins, rounds: ctx.tier.pick(260, 1300) });
        }
    }
    sweep_list(ctx, "lifetime_replays", &lives, SweepOpts { chunk: 1, ..Default::default() }, run_life);
    // node level: verbatim re-injection of wire datagrams (also after a replayed handshake datagram) through real nodes - the
    // executions of C09 that carry the replay-window oracle
    let node_cases: Vec<super::c09::Case> = super::c09::cases(ctx.tier)
        .into_iter()
        .filter(|c| c.variant == "verbatim" && c.source == "original" && c.target == "dest" && (c.second.is_none() || c.second.map(|s| s.0 == usize::MAX).unwrap_or(false)))
        .collect();
    sweep_list(ctx, "node_replays", &node_cases, SweepOpts { chunk: 1, trivial_classes: vec![0], ..Default::default() }, super::c09::run_case);
    let ciphers: &[u8] = ctx.tier.pick(&[1, 3][..], &[1, 2, 3][..]);
    for &algo in ciphers {
        let (depth, seals, rots) = match (ctx.tier, algo) {
            (Tier::Quick, 1) => (9, 5, 2),
            (Tier::Quick, _) => (8, 4, 1),
            (Tier::Thorough, 1) => (13, 5, 5),
            (Tier::Thorough, _) => (12, 5, 3),
        };
        let m = M { algo, max_seals: seals, max_rotations: rots };
        let fam = format!("window_{}", algo_name(algo).to_lowercase());
        let res = explore::explore(
            ctx,
            &fam,
            &m,
            ExploreOpts { max_depth: depth, wall_cap: Duration::from_secs(ctx.tier.pick(400, 900)), state_cap: ctx.tier.pick(400_000, 5_000_000), dedup: true },
        );
        if algo == 1 {
            explore::audit_dedup(ctx, &fam, &m, &res, ctx.tier.pick(6, 7), Duration::from_secs(ctx.tier.pick(300, 300)));
        }
    }
    ctx.assume("counters are compared as offsets from each key's random start; starts within 2^20 of a byte-carry boundary are not forced here (C04 covers the carry arithmetic)");
    ctx.assume("AEAD authenticity itself (ring) is trusted: a datagram with an altered counter is expected to fail");
}

pub fn replay(family: &str, case: &Value) -> Option<CaseResult> {
    if family == "lifetime_replays" {
        return super::replay_with::<LifeCase>(case, run_life);
    }
    if family == "node_replays" {
        return super::replay_with::<super::c09::Case>(case, super::c09::run_case);
    }
    let algo = if family.contains("aes128") {
        1
    } else if family.contains("aes256") {
        2
    } else {
        3
    };
    let hist: Vec<Ev> = serde_json::from_value(case["history"].clone()).ok()?;
    let m = M { algo, max_seals: 99, max_rotations: 99 };
    Some(explore::replay_history(&m, &hist))
}
