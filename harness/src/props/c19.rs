//! C19 Address dissection of frames and packets is exact and total.
//! E3: complete enumeration of small structured input domains against an independent reference dissector.
use super::{replay_with, Prop};
use crate::{
    mc::{sweep::*, CaseResult, Ctx, Fail},
    payload::{Frame, Packet, Protocol},
    types::Address,
};
use serde_json::Value;

pub fn prop() -> Prop {
    Prop {
        id: "C19",
        title: "Address dissection of frames and packets is exact and total",
        level: "exploration",
        rule: "complete enumeration (no repetition) of: position-coded buffers of every length 0..=64 x first-byte/ethertype \
               variants; all 65536 ethertypes; all 65536 tag-control values; nested tags; 16 version nibbles x lengths 0..=44; \
               every address byte x 8 values. Each case runs the real Frame::parse/Packet::parse under panic capture and is \
               compared with an independent reference; priority bits of a tag must not change the result. non-trivial = the real dissector returned Ok (an address pair was compared)",
        run,
        replay,
    }
}

#[derive(Serialize, Deserialize, Clone, Debug)]
pub struct Case {
    pub proto: String, // "frame" | "packet"
    pub data: Vec<u8>,
}

/// Reference Ethernet dissector. Returns None = reject, Some(list of acceptable (src,dst)) otherwise.
fn ref_frame(d: &[u8]) -> Option<Vec<(Vec<u8>, Vec<u8>)>> {
    if d.len() < 14 {
        return None;
    }
    let dst = d[0..6].to_vec();
    let src = d[6..12].to_vec();
    if d[12] == 0x81 && d[13] == 0x00 {
        if d.len() < 16 {
            return None;
        }
        let vlan = [d[14] & 0x0f, d[15]];
        let mut s = vlan.to_vec();
        s.extend_from_slice(&src);
        let mut t = vlan.to_vec();
        t.extend_from_slice(&dst);
        if vlan == [0, 0] {
            // the statement leaves open whether VLAN 0 is folded to the untagged form (C13 decides that)
            return Some(vec![(s, t), (src, dst)]);
        }
        return Some(vec![(s, t)]);
    }
    Some(vec![(src, dst)])
}

fn ref_packet(d: &[u8]) -> Option<Vec<(Vec<u8>, Vec<u8>)>> {
    if d.is_empty() {
        return None;
    }
    match d[0] >> 4 {
        4 if d.len() >= 20 => Some(vec![(d[12..16].to_vec(), d[16..20].to_vec())]),
        6 if d.len() >= 40 => Some(vec![(d[8..24].to_vec(), d[24..40].to_vec())]),
        _ => None,
    }
}

fn addr_bytes(a: &Address) -> Vec<u8> {
    a.data[..a.len as usize].to_vec()
}

pub fn run_case(c: &Case) -> CaseResult {
    let (got, want) = if c.proto == "frame" {
        (Frame::parse(&c.data), ref_frame(&c.data))
    } else {
        (Packet::parse(&c.data), ref_packet(&c.data))
    };
    // "extended by the 12-bit VLAN id": the result is a function of the id alone, so the priority/DEI bits of the tag
    // control must not change it (whichever form the dissector uses for VLAN 0)
    if c.proto == "frame" && c.data.len() >= 16 && c.data[12] == 0x81 && c.data[13] == 0 && c.data[14] & 0xf0 != 0 {
        let mut d2 = c.data.clone();
        d2[14] &= 0x0f;
        if let (Ok((s, d)), Ok((s2, d2))) = (&got, Frame::parse(&d2)) {
            if addr_bytes(s) != addr_bytes(&s2) || addr_bytes(d) != addr_bytes(&d2) {
                return Err(Fail::new("priority_bits_change_addresses", format!("tag control {:02x}{:02x}: got {:?}/{:?}, with cleared priority bits {:?}/{:?}", c.data[14], c.data[15], s, d, s2, d2))
                    .with("vlan0", c.data[14] & 0x0f == 0 && c.data[15] == 0));
            }
        }
    }
    match (got, want) {
        (Err(_), None) => Ok(0),
        (Ok((s, d)), Some(allowed)) => {
            let pair = (addr_bytes(&s), addr_bytes(&d));
            if s.len > 16 || d.len > 16 {
                return Err(Fail::new("bad_len", "address length > 16"));
            }
            if allowed.contains(&pair) {
                Ok(1 + pair.0.len() as u64)
            } else {
                Err(Fail::new("wrong_addresses", format!("got {:?}, allowed {:?}", pair, allowed)).with("proto", c.proto.clone()))
            }
        }
        (Ok((s, d)), None) => Err(Fail::new("accepted_invalid", format!("reference rejects, got {:?}/{:?}", s, d))
            .with("proto", c.proto.clone())
            .with("len", c.data.len() as u64)),
        (Err(e), Some(_)) => Err(Fail::new("rejected_valid", format!("reference accepts, got error {}", e))
            .with("proto", c.proto.clone())
            .with("len", c.data.len() as u64)),
    }
}

fn coded(len: usize, salt: u8) -> Vec<u8> {
    // position-coded content: byte i = 0x40 + i (+salt) so that bytes taken from elsewhere are visible
    (0..len).map(|i| (0x40u8.wrapping_add(i as u8)).wrapping_add(salt.wrapping_mul(17))).collect()
}

pub fn cases(ctx: &Ctx) -> Vec<(&'static str, Vec<Case>)> {
    let mut out = vec![];
    // (1) every length 0..=64 x variants
    let mut v = vec![];
    for len in 0..=64usize {
        for salt in 0..4u8 {
            let base = coded(len, salt);
            v.push(Case { proto: "frame".into(), data: base.clone() });
            v.push(Case { proto: "packet".into(), data: base.clone() });
            // tagged frame of that length
            let mut t = base.clone();
            if len > 12 {
                t[12] = 0x81;
            }
            if len > 13 {
                t[13] = 0x00;
            }
            v.push(Case { proto: "frame".into(), data: t.clone() });
            // tagged with vlan 0
            if len > 15 {
                let mut z = t.clone();
                z[14] = 0xe0;
                z[15] = 0;
                v.push(Case { proto: "frame".into(), data: z });
            }
            // double tagged
            if len > 17 {
                let mut z = t.clone();
                z[16] = 0x81;
                z[17] = 0x00;
                v.push(Case { proto: "frame".into(), data: z });
            }
            for nib in 0..16u8 {
                let mut p = base.clone();
                if len > 0 {
                    p[0] = (nib << 4) | (p[0] & 0x0f);
                    v.push(Case { proto: "packet".into(), data: p });
                }
            }
        }
    }
    out.push(("lengths", v));
    // (2) all ethertypes
    let mut v = vec![];
    for et in 0..=0xffffu32 {
        let mut d = coded(20, 1);
        d[12] = (et >> 8) as u8;
        d[13] = et as u8;
        v.push(Case { proto: "frame".into(), data: d });
    }
    out.push(("ethertypes", v));
    // (3) all tag-control values, lengths 16 and 15 (truncated tag) and 64
    let mut v = vec![];
    for tc in 0..=0xffffu32 {
        for len in [16usize, 40] {
            let mut d = coded(len, 2);
            d[12] = 0x81;
            d[13] = 0;
            d[14] = (tc >> 8) as u8;
            d[15] = tc as u8;
            v.push(Case { proto: "frame".into(), data: d });
        }
    }
    for tc_hi in 0..=255u8 {
        let mut d = coded(15, 2);
        d[12] = 0x81;
        d[13] = 0;
        d[14] = tc_hi;
        v.push(Case { proto: "frame".into(), data: d });
    }
    out.push(("tag_control", v));
    // (4) version nibbles x lengths 0..=44
    let mut v = vec![];
    for nib in 0..16u8 {
        for low in [0u8, 5, 15] {
            for len in 1..=44usize {
                let mut d = coded(len, 3);
                d[0] = (nib << 4) | low;
                v.push(Case { proto: "packet".into(), data: d });
            }
        }
    }
    out.push(("version_nibbles", v));
    // (5) every address byte varied
    let mut v = vec![];
    let vals: &[u8] = if ctx.tier == crate::mc::Tier::Quick { &[0, 1, 0x7f, 0x80, 0xff] } else { &[] };
    let all: Vec<u8> = (0..=255).collect();
    let vals = if vals.is_empty() { &all[..] } else { vals };
    for (ver, len) in [(4u8, 20usize), (4, 24), (6, 40), (6, 48)] {
        for pos in 0..len {
            for &val in vals {
                let mut d = coded(len, 0);
                d[0] = (ver << 4) | 5;
                if pos == 0 {
                    d[0] = (ver << 4) | (val & 0xf);
                } else {
                    d[pos] = val;
                }
                v.push(Case { proto: "packet".into(), data: d });
            }
        }
    }
    for pos in 0..18 {
        for &val in vals {
            let mut d = coded(18, 0);
            d[pos] = val;
            v.push(Case { proto: "frame".into(), data: d.clone() });
            if pos != 12 && pos != 13 {
                d[12] = 0x81;
                d[13] = 0;
                v.push(Case { proto: "frame".into(), data: d });
            }
        }
    }
    out.push(("address_bytes", v));
    out
}

pub fn run(ctx: &Ctx) {
    for (name, list) in cases(ctx) {
        sweep_list(ctx, name, &list, SweepOpts { trivial_classes: vec![0], deadline_secs: Some(30), ..Default::default() }, run_case);
    }
    ctx.assume("inputs longer than 64 bytes behave like their 64-byte prefix (the dissectors read at most 40 bytes)");
}

pub fn replay(_family: &str, case: &Value) -> Option<CaseResult> {
    replay_with::<Case>(case, run_case)
}
