//! Node-level simulation: real GenericCloud nodes over the repository's MockSocket / MockDevice / MockTimeSource.
//! The harness owns delivery order, loss, duplication, time and what an outsider injects.
use super::common::*;
use crate::{
    cloud::GenericCloud,
    config::Config,
    crypto::verif as cv,
    device::{MockDevice, Type},
    error::Error,
    net::MockSocket,
    payload::Protocol,
    types::Mode,
    util::{MockTimeSource, Time, TimeSource},
};
use std::{collections::VecDeque, net::SocketAddr};

pub type Node<P> = GenericCloud<MockDevice, P, MockSocket, MockTimeSource>;

pub const START_TIME: Time = 1_000_000;

#[derive(Clone, Debug)]
pub struct Wire {
    pub from: SocketAddr,
    pub to: SocketAddr,
    pub data: Vec<u8>,
    pub sent_at: Time,
}

pub struct Net<P: Protocol> {
    pub nodes: Vec<Node<P>>,
    pub addrs: Vec<SocketAddr>,
    pub queue: VecDeque<Wire>,
    pub now: Time,
    /// every datagram any node ever sent (wire capture), if enabled
    pub capture: Option<Vec<Wire>>,
    /// reverse the order of the nodes' salted hashes (H5 seam)
    pub reverse_salts: bool,
    /// datagrams whose destination is no node (dropped by the network)
    pub lost_to_nowhere: usize,
    /// node i drops everything (silenced) from this time on
    pub silenced: Vec<bool>,
    /// housekeep errors returned (the event loop only logs them)
    pub housekeep_errors: Vec<(usize, String)>,
    /// extra addresses under which a node is reachable (port forwarding, hair-pinning): (alias, node)
    pub aliases: Vec<(SocketAddr, usize)>,
    /// for datagrams a node sends to one of its OWN addresses: destination dialled -> source address it sees
    pub self_source: Vec<(SocketAddr, SocketAddr)>,
    /// connection tracking of the alias translation: (node, remote) -> alias the remote used; replies appear to come from it
    pub conntrack: Vec<((usize, SocketAddr), SocketAddr)>,
    /// two-plane underlay (multi-homed nodes): node i is also reachable at `plane1_addr(i)`; a datagram sent to a plane-1
    /// address is seen as coming from the sender's plane-1 address (replaces the connection tracking above)
    pub two_planes: bool,
    /// with `two_planes`: the nodes' own (advertised) addresses are NOT routable (like the default wildcard listen address);
    /// node i is reachable only at `plane0_addr(i)` and `plane1_addr(i)`
    pub real_unroutable: bool,
    /// partial reachability: datagrams of node `.0` towards address `.1` are lost (another network, a filtered port)
    pub blackhole: Vec<(usize, SocketAddr)>,
    /// counter that makes the salt of every call into a node different (same leading byte, so the order between nodes stays)
    pub salt_counter: std::cell::Cell<u16>,
}

/// plane-0 address of node i in a two-plane underlay whose nodes advertise an unroutable address
pub fn plane0_addr(i: usize) -> SocketAddr {
    format!("[fd00:0::{}]:{}", i + 1, i + 1).parse().unwrap()
}

/// plane-1 address of node i in a two-plane underlay
pub fn plane1_addr(i: usize) -> SocketAddr {
    format!("[fd00:1::{}]:{}", i + 1, i + 1).parse().unwrap()
}

pub fn addr_of(port: u16) -> SocketAddr {
    format!("[::]:{}", port).parse().unwrap()
}

/// Base configuration of a mock node: explicit key pair `key`, trusting the listed keys.
pub fn base_config(mode: Mode, device_type: Type, key: usize, trusted: &[usize]) -> Config {
    let mut c = Config::default();
    c.mode = mode;
    c.device_type = device_type;
    c.auto_claim = false;
    c.port_forwarding = false;
    c.crypto = cfg_with_key(key, trusted, &[]);
    c
}

impl<P: Protocol> Net<P> {
    pub fn new() -> Self {
        MockTimeSource::set_time(START_TIME);
        Net {
            nodes: vec![],
            addrs: vec![],
            queue: VecDeque::new(),
            now: START_TIME,
            capture: None,
            reverse_salts: false,
            lost_to_nowhere: 0,
            silenced: vec![],
            housekeep_errors: vec![],
            aliases: vec![],
            self_source: vec![],
            conntrack: vec![],
            two_planes: false,
            real_unroutable: false,
            blackhole: vec![],
            salt_counter: std::cell::Cell::new(0),
        }
    }

    fn salt(&self, i: usize) -> [u8; 4] {
        // ascending with the node index (up to 29 nodes): 16, 32, .. 240, 241, 242, ..
        let v: u8 = if i < 15 { 16 * (i as u8 + 1) } else { (240 + (i - 14)).min(254) as u8 };
        // the first byte fixes the order of two nodes' salted hashes; the rest differs from call to call, as two handshake
        // objects of one node have different salts in reality
        let c = self.salt_counter.get();
        self.salt_counter.set(c.wrapping_add(1));
        [if self.reverse_salts { 255 - v } else { v }, (c >> 8) as u8, c as u8, i as u8]
    }

    pub fn add_node(&mut self, config: &Config, nat: bool) -> usize {
        let i = self.nodes.len();
        let addr = addr_of(i as u16 + 1);
        let mut config = config.clone();
        config.listen = format!("[::]:{}", i + 1);
        MockSocket::set_nat(nat);
        cv::set_speed_override(Some([100.0, 90.0, 80.0]));
        MockTimeSource::set_time(self.now);
        let node = Node::<P>::new(&config, MockSocket::new(addr), MockDevice::new(), None, None);
        cv::set_speed_override(None);
        MockSocket::set_nat(false);
        self.nodes.push(node);
        self.addrs.push(addr);
        self.silenced.push(false);
        i
    }

    /// Runs `f` on node `i` with that node's salt seam set, then moves what it sent into the network queue.
    pub fn with_node<R>(&mut self, i: usize, f: impl FnOnce(&mut Node<P>) -> R) -> R {
        MockTimeSource::set_time(self.now);
        cv::init_verif::set_salt_override(Some(self.salt(i)));
        let r = f(&mut self.nodes[i]);
        cv::init_verif::set_salt_override(None);
        self.collect(i);
        r
    }

    fn collect(&mut self, i: usize) {
        let from = self.addrs[i];
        while let Some((to, data)) = self.nodes[i].verif_socket().pop_outbound() {
            let w = Wire { from, to, data, sent_at: self.now };
            if let Some(c) = self.capture.as_mut() {
                c.push(w.clone());
            }
            if self.silenced[i] {
                continue;
            }
            self.queue.push_back(w);
        }
    }

    pub fn node_index(&self, addr: &SocketAddr) -> Option<usize> {
        if self.two_planes {
            if let Some(i) = (0..self.addrs.len()).find(|i| plane1_addr(*i) == *addr || (self.real_unroutable && plane0_addr(*i) == *addr)) {
                return Some(i);
            }
            if self.real_unroutable {
                return None;
            }
        }
        self.addrs.iter().position(|a| a == addr).or_else(|| self.aliases.iter().find(|(a, _)| a == addr).map(|(_, i)| *i))
    }

    pub fn connect(&mut self, i: usize, to: SocketAddr) {
        self.with_node(i, |n| n.connect(to).expect("connect"));
    }

    /// Registers a peer like main.rs does for configured peers: connect + reconnect entry.
    pub fn configure_peer(&mut self, i: usize, to: SocketAddr) {
        self.with_node(i, |n| {
            n.connect(to).expect("connect");
            n.add_reconnect_peer(format!("{}", to));
        });
    }

    /// Hands one datagram to its destination (if it is a node and its NAT lets it in). Returns the node index.
    pub fn hand_over(&mut self, w: Wire) -> Option<usize> {
        if !self.blackhole.is_empty() {
            if let Some(sender) = self.addrs.iter().position(|a| *a == w.from) {
                if self.blackhole.iter().any(|(n, d)| *n == sender && *d == w.to) {
                    self.lost_to_nowhere += 1;
                    return None;
                }
            }
        }
        let i = match self.node_index(&w.to) {
            Some(i) => i,
            None => {
                self.lost_to_nowhere += 1;
                return None;
            }
        };
        if self.silenced[i] {
            return None;
        }
        let mut w = w;
        if self.two_planes {
            if let Some(sender) = self.addrs.iter().position(|a| *a == w.from) {
                if w.to == plane1_addr(i) {
                    w.from = plane1_addr(sender);
                } else if w.to == plane0_addr(i) {
                    w.from = plane0_addr(sender);
                } else if self.real_unroutable {
                    self.lost_to_nowhere += 1;
                    return None;
                }
            }
        } else if self.addrs[i] != w.to {
            // reached through an alias: remember it, replies to that remote will carry the alias as source
            let key = (i, w.from);
            if !self.conntrack.iter().any(|(k, _)| *k == key) {
                self.conntrack.push((key, w.to));
            }
        }
        if self.two_planes {
        } else if let Some(sender) = self.addrs.iter().position(|a| *a == w.from) {
            if let Some((_, alias)) = self.conntrack.iter().find(|((n, remote), _)| *n == sender && *remote == w.to) {
                if sender != i {
                    w.from = *alias;
                }
            }
        }
        if self.addrs[i] == w.from {
            // the node talks to itself through one of its addresses: the network decides which source it sees
            if let Some((_, src)) = self.self_source.iter().find(|(d, _)| *d == w.to) {
                w.from = *src;
            }
        }
        MockTimeSource::set_time(self.now);
        if self.nodes[i].verif_socket().put_inbound(w.from, w.data) {
            self.with_node(i, |n| n.verif_socket_event());
            Some(i)
        } else {
            None
        }
    }

    pub fn deliver_at(&mut self, idx: usize) -> Option<usize> {
        let w = self.queue.remove(idx)?;
        self.hand_over(w)
    }

    pub fn dup_at(&mut self, idx: usize) -> Option<usize> {
        let w = self.queue.get(idx)?.clone();
        self.hand_over(w)
    }

    pub fn drop_at(&mut self, idx: usize) {
        self.queue.remove(idx);
    }

    /// Delivers FIFO until quiescent or `cap` deliveries; returns false if the cap was hit (datagrams keep circulating).
    pub fn deliver_all(&mut self, cap: usize) -> bool {
        let mut n = 0;
        while let Some(w) = self.queue.pop_front() {
            self.hand_over(w);
            n += 1;
            if n >= cap {
                return self.queue.is_empty();
            }
        }
        true
    }

    /// An outsider's datagram: arrives at node `to` with claimed source `from`.
    pub fn inject(&mut self, to: usize, from: SocketAddr, data: Vec<u8>) {
        let w = Wire { from, to: self.addrs[to], data, sent_at: self.now };
        self.hand_over(w);
    }

    pub fn housekeep(&mut self, i: usize) {
        if let Err(e) = self.with_node(i, |n| n.verif_housekeep()) {
            self.housekeep_errors.push((i, format!("{}", e)));
        }
    }

    /// One second passes; every node's housekeeping runs (in node order), datagrams stay queued.
    pub fn tick(&mut self) {
        self.now += 1;
        MockTimeSource::set_time(self.now);
        for i in 0..self.nodes.len() {
            self.housekeep(i);
        }
    }

    /// Default environment: `secs` seconds of lock-step ticks with FIFO delivery to quiescence after each.
    pub fn run(&mut self, secs: usize) {
        for _ in 0..secs {
            self.tick();
            self.deliver_all(256);
        }
    }

    pub fn put_frame(&mut self, i: usize, frame: Vec<u8>) -> Result<(), Error> {
        self.nodes[i].verif_device().put_inbound(frame);
        self.with_node(i, |n| n.verif_device_event_result())
    }

    pub fn pop_frames(&mut self, i: usize) -> Vec<Vec<u8>> {
        let mut v = vec![];
        while let Some(f) = self.nodes[i].verif_device().pop_outbound() {
            v.push(f);
        }
        v
    }

    pub fn connected(&self, i: usize, j: usize) -> bool {
        self.nodes[i].verif_is_connected(&self.addrs[j])
    }

    pub fn fully_meshed(&self) -> bool {
        let n = self.nodes.len();
        (0..n).all(|i| (0..n).all(|j| i == j || self.connected(i, j)))
    }

    /// A fully meshed network of `n` nodes (node 0 dials everybody, then peer exchange does the rest).
    pub fn mesh(configs: &[Config], settle: usize) -> Self {
        let mut net = Self::new();
        for c in configs {
            net.add_node(c, false);
        }
        for i in 1..configs.len() {
            let to = net.addrs[i];
            net.connect(0, to);
        }
        net.deliver_all(512);
        net.run(settle);
        net
    }
}

/// Ethernet frame: dst, src, optional 802.1Q tag (tag control), ethertype 0x0800, payload.
pub fn eth_frame(dst: [u8; 6], src: [u8; 6], tag: Option<u16>, payload: &[u8]) -> Vec<u8> {
    let mut f = vec![];
    f.extend_from_slice(&dst);
    f.extend_from_slice(&src);
    if let Some(t) = tag {
        f.extend_from_slice(&[0x81, 0x00, (t >> 8) as u8, t as u8]);
    }
    f.extend_from_slice(&[0x08, 0x00]);
    f.extend_from_slice(payload);
    f
}

/// IPv4 packet header (20 bytes) + payload.
pub fn ipv4_packet(src: [u8; 4], dst: [u8; 4], payload: &[u8]) -> Vec<u8> {
    let mut p = vec![0x45, 0, 0, 0, 0, 0, 0, 0, 64, 17, 0, 0];
    p.extend_from_slice(&src);
    p.extend_from_slice(&dst);
    p.extend_from_slice(payload);
    p
}

impl<P: Protocol> Net<P> {
    /// Everything a datagram could leave behind at node `i` (peers, pending handshakes, routes, own addresses,
    /// reconnect list), rendered as text. Traffic statistics are deliberately not part of it.
    pub fn snapshot(&self, i: usize) -> String {
        let n = &self.nodes[i];
        format!(
            "peers={:?}\npending={:?}\nclaims={:?}\ncache={:?}\nown={:?}\nreconnect={:?}\nnext_peers={}",
            n.verif_peers(),
            n.verif_pending(),
            n.verif_table().verif_claims(),
            n.verif_table().verif_cache(),
            n.verif_own_addresses(),
            n.verif_reconnect(),
            n.verif_next_peers()
        )
    }

    /// Like `snapshot` but without receive-window/counter details (for oracles that allow genuine traffic in between).
    pub fn routing_snapshot(&self, i: usize) -> String {
        let n = &self.nodes[i];
        let peers: Vec<_> = n.verif_peers().into_iter().map(|p| (p.addr, p.node_id)).collect();
        let pending: Vec<_> = n.verif_pending().into_iter().map(|p| p.0).collect();
        let claims: Vec<_> = n.verif_table().verif_claims().into_iter().map(|c| (c.0, c.1)).collect();
        format!("peers={:?} pending={:?} claims={:?}", peers, pending, claims)
    }
}

// ---------------------------------------------------------------------------------------------------------------
// Scripted peer: the harness speaks the protocol itself through a REAL PeerCrypto<NodeInfo>, so that a node can be
// shown things a real node would not say on its own (given advertised timeout, changed claims, close, silence).

use crate::{
    crypto::{Crypto, MessageResult, PeerCrypto},
    messages::NodeInfo,
    types::{NodeId, RangeList},
    util::MsgBuffer,
};

pub struct Scripted {
    pub addr: SocketAddr,
    pub crypto: Crypto,
    pub pc: PeerCrypto<NodeInfo>,
    pub node_id: NodeId,
    pub established: bool,
    /// node information received from the node at handshake completion
    pub peer_info: Option<NodeInfo>,
    /// messages (type, cleartext) received after the handshake
    pub received: Vec<(u8, Vec<u8>)>,
    /// the one node this peer talks to (datagrams of other nodes are not answered, as if filtered by a NAT)
    pub talks_to: Option<usize>,
}

impl Scripted {
    pub fn info(node_id: NodeId, claims: &[crate::types::Range], peer_timeout: Option<u16>, addr: SocketAddr) -> NodeInfo {
        let claims: RangeList = claims.iter().cloned().collect();
        NodeInfo { node_id, peers: smallvec::smallvec![], claims, peer_timeout, addrs: smallvec::smallvec![addr] }
    }

    pub fn new(port: u16, nid: u8, key: usize, trusted: &[usize], claims: &[crate::types::Range], peer_timeout: Option<u16>) -> Self {
        Self::new_with_algorithms(port, nid, key, trusted, claims, peer_timeout, &[])
    }

    /// `algorithms` as in the configuration file (empty = default: all ciphers, no plain).
    pub fn new_with_algorithms(port: u16, nid: u8, key: usize, trusted: &[usize], claims: &[crate::types::Range], peer_timeout: Option<u16>, algorithms: &[&str]) -> Self {
        let addr = addr_of(port);
        let node_id = node_id(nid);
        let crypto = mk_crypto(node_id, &cfg_with_key(key, trusted, algorithms), [100.0, 90.0, 80.0]).expect("crypto");
        cv::init_verif::set_salt_override(Some([0x08, 0, 0, nid]));
        let pc = crypto.peer_instance(Self::info(node_id, claims, peer_timeout, addr));
        cv::init_verif::set_salt_override(None);
        Scripted { addr, crypto, pc, node_id, established: false, peer_info: None, received: vec![], talks_to: None }
    }

    /// Sends the ping (the handshake continues through `pump`).
    pub fn dial<P: Protocol>(&mut self, net: &mut Net<P>, to: usize) {
        let mut buf = MsgBuffer::new(SPACE);
        self.pc.initialize(&mut buf).expect("initialize");
        let data = buf.message().to_vec();
        self.talks_to = Some(to);
        net.inject(to, self.addr, data);
    }

    /// Processes every datagram the network holds for this peer; replies go straight to the sending node.
    pub fn pump<P: Protocol>(&mut self, net: &mut Net<P>) {
        loop {
            let pos = match net.queue.iter().position(|w| w.to == self.addr) {
                Some(p) => p,
                None => break,
            };
            let w = net.queue.remove(pos).unwrap();
            let from = match net.node_index(&w.from) {
                Some(i) => i,
                None => continue,
            };
            if self.talks_to.is_some() && self.talks_to != Some(from) {
                continue;
            }
            let mut buf = MsgBuffer::new(SPACE);
            load(&mut buf, &w.data);
            if std::env::var("VERIF_TRACE_PUMP").is_ok() {
                eprintln!("pump t=+{} from node {} len {} first {:?}", net.now - START_TIME, from, w.data.len(), w.data.first());
            }
            match self.pc.handle_message(&mut buf) {
                Ok(MessageResult::Initialized(info)) => {
                    self.established = true;
                    self.peer_info = Some(info);
                }
                Ok(MessageResult::InitializedWithReply(info)) => {
                    self.established = true;
                    self.peer_info = Some(info);
                    let d = buf.message().to_vec();
                    net.inject(from, self.addr, d);
                }
                Ok(MessageResult::Reply) => {
                    let d = buf.message().to_vec();
                    if !d.is_empty() {
                        net.inject(from, self.addr, d);
                    }
                }
                Ok(MessageResult::Message(t)) => self.received.push((t, buf.message().to_vec())),
                Ok(MessageResult::None) => {}
                Err(_) => {}
            }
        }
    }

    /// Complete handshake with node `to` (scripted peer initiates).
    pub fn connect<P: Protocol>(&mut self, net: &mut Net<P>, to: usize) -> bool {
        self.dial(net, to);
        for _ in 0..6 {
            self.pump(net);
        }
        self.established
    }

    /// One sealed message of type `t` with cleartext `payload` to node `to`.
    pub fn send<P: Protocol>(&mut self, net: &mut Net<P>, to: usize, t: u8, payload: &[u8]) {
        let mut buf = MsgBuffer::new(SPACE);
        load(&mut buf, payload);
        self.pc.send_message(t, &mut buf).expect("send_message");
        let d = buf.message().to_vec();
        net.inject(to, self.addr, d);
    }

    pub fn send_info<P: Protocol>(&mut self, net: &mut Net<P>, to: usize, info: &NodeInfo) {
        let mut buf = MsgBuffer::new(SPACE);
        info.encode(&mut buf);
        let payload = buf.message().to_vec();
        self.send(net, to, crate::messages::MESSAGE_TYPE_NODE_INFO, &payload);
    }

    /// The peer's own per-second duties (replay window, rotation); rotation datagrams are delivered to `to`.
    pub fn tick<P: Protocol>(&mut self, net: &mut Net<P>, to: usize) {
        let mut out = MsgBuffer::new(SPACE);
        if let Ok(MessageResult::Reply) = self.pc.every_second(&mut out) {
            let d = out.message().to_vec();
            net.inject(to, self.addr, d);
        }
    }
}
