//! C18 Generated and password-derived keys are always usable and deterministic.
//! E3: complete enumeration of short byte strings through the text codec (big-integer reference), of
//! leading-zero seed patterns and of a password dictionary through the real key generation,
//! configuration parsing and handshake.
use super::{common::*, replay_with, Prop};
use crate::{
    crypto::{Config as CryptoConfig, Crypto},
    mc::{sweep::*, CaseResult, Ctx, Fail, Tier},
    util::{from_base62, to_base62},
};
use ring::signature::{Ed25519KeyPair, KeyPair};
use serde_json::Value;

pub fn prop() -> Prop {
    Prop {
        id: "C18",
        title: "Generated and password-derived keys are always usable and deterministic",
        level: "exploration",
        rule: "complete enumeration of: all byte strings of length <= 2 (quick) / <= 3 (thorough) through to_base62/from_base62 \
               vs. a big-integer reference; seeds with 0..=4 leading zero bytes x 8 remainders plus seeds searched so that the \
               PUBLIC key starts with a zero byte, rendered exactly as key generation prints them and configured as \
               private / private+public / trusted key followed by a real handshake; passwords p0..p{N} + dictionary (every length 0..=130) through \
               generate_keypair(Some(pw)) twice, two Crypto instances, handshake; all ordered pairs of 12 different passwords \
               must be rejected. Every printed public key also inside 3-entry trusted-key lists (each position) and as the own key listed next to a foreign one. non-trivial = case reached a real handshake or a non-empty codec round trip",
        run,
        replay,
    }
}

// ---------- text codec ----------

const ALPHABET: &[u8] = b"0123456789ABCDEFGHIJKLMNOPQRSTUVWXYZabcdefghijklmnopqrstuvwxyz";

/// Reference: big-endian bytes -> base 62 digits by repeated division (schoolbook), no leading zeros.
fn ref_to_base62(data: &[u8]) -> String {
    let mut num: Vec<u8> = data.to_vec();
    let mut digits = vec![];
    loop {
        // strip leading zeros
        while !num.is_empty() && num[0] == 0 {
            num.remove(0);
        }
        if num.is_empty() {
            break;
        }
        let mut rem: u32 = 0;
        for b in num.iter_mut() {
            let cur = rem * 256 + *b as u32;
            *b = (cur / 62) as u8;
            rem = cur % 62;
        }
        digits.push(ALPHABET[rem as usize]);
    }
    digits.reverse();
    String::from_utf8(digits).unwrap()
}

fn strip_zeros(d: &[u8]) -> &[u8] {
    let n = d.iter().take_while(|b| **b == 0).count();
    &d[n..]
}

#[derive(Serialize, Deserialize, Clone, Debug)]
pub struct CodecCase {
    pub bytes: Vec<u8>,
}

pub fn run_codec(c: &CodecCase) -> CaseResult {
    let text = to_base62(&c.bytes);
    let want = ref_to_base62(&c.bytes);
    if text != want {
        return Err(Fail::new("codec_encode", format!("to_base62({:?}) = {:?}, reference {:?}", c.bytes, text, want)));
    }
    let back = from_base62(&text).map_err(|ch| Fail::new("codec_decode_err", format!("from_base62({:?}) rejected {:?}", text, ch)))?;
    // the codec is a number codec: the value must survive (leading zero bytes carry no value)
    if back != strip_zeros(&c.bytes) {
        return Err(Fail::new("codec_roundtrip", format!("{:?} -> {:?} -> {:?}", c.bytes, text, back)));
    }
    Ok(if back.is_empty() { 0 } else { 1 + back.len() as u64 })
}

// ---------- keys ----------

#[derive(Serialize, Deserialize, Clone, Debug)]
pub struct SeedCase {
    pub seed: Vec<u8>,
}

fn try_handshake(a_cfg: &CryptoConfig, b_cfg: &CryptoConfig) -> Result<bool, Fail> {
    let ca = mk_crypto(node_id(1), a_cfg, [100.0, 90.0, 80.0])
        .map_err(|e| Fail::new("key_rejected", format!("Crypto::new failed for {:?}: {}", a_cfg, e)).with("error", format!("{}", e)))?;
    let cb = mk_crypto(node_id(2), b_cfg, [100.0, 90.0, 80.0])
        .map_err(|e| Fail::new("key_rejected", format!("Crypto::new failed for {:?}: {}", b_cfg, e)).with("error", format!("{}", e)))?;
    let mut a = ca.peer_instance(Blob(vec![1]));
    let mut b = cb.peer_instance(Blob(vec![2]));
    let out = handshake(&mut a, &mut b);
    Ok(out.a_done == Some(Blob(vec![2])) && out.b_done == Some(Blob(vec![1])))
}

/// What key generation prints for this seed (same rendering as Crypto::generate_keypair: to_base62 of seed and public key).
fn printed(seed: &[u8]) -> (String, String, Vec<u8>) {
    let kp = Ed25519KeyPair::from_seed_unchecked(seed).expect("seed");
    let pk = kp.public_key().as_ref().to_vec();
    (to_base62(seed), to_base62(&pk), pk)
}

pub fn run_seed(c: &SeedCase) -> CaseResult {
    let (sk_text, pk_text, pk) = printed(&c.seed);
    let lead_seed = c.seed.iter().take_while(|b| **b == 0).count() as u64;
    let lead_pk = pk.iter().take_while(|b| **b == 0).count() as u64;
    check_printed_pair(&sk_text, &pk_text).map_err(|f| f.with("seed_leading_zero_bytes", lead_seed).with("pubkey_leading_zero_bytes", lead_pk))?;
    Ok(10 + lead_seed * 4 + lead_pk.min(3))
}

/// The obligations of the statement for one printed pair.
fn check_printed_pair(sk_text: &str, pk_text: &str) -> Result<(), Fail> {
    let base = CryptoConfig::default();
    // (1) private key alone
    let own = CryptoConfig { private_key: Some(sk_text.to_string()), ..base.clone() };
    mk_crypto(node_id(1), &own, [1.0, 1.0, 1.0])
        .map_err(|e| Fail::new("key_rejected", format!("private key {:?} rejected: {}", sk_text, e)).with("role", "private").with("error", format!("{}", e)))?;
    // (2) private key yields the printed public key
    match Crypto::public_key_from_private_key(sk_text) {
        Ok(p) if p == pk_text => {}
        Ok(p) => return Err(Fail::new("pubkey_mismatch", format!("private {:?} yields {:?}, printed {:?}", sk_text, p, pk_text))),
        Err(e) => {
            return Err(Fail::new("key_rejected", format!("public_key_from_private_key({:?}): {}", sk_text, e))
                .with("role", "private")
                .with("error", format!("{}", e)))
        }
    }
    // (3) private + public key
    let both = CryptoConfig { private_key: Some(sk_text.to_string()), public_key: Some(pk_text.to_string()), ..base.clone() };
    mk_crypto(node_id(1), &both, [1.0, 1.0, 1.0])
        .map_err(|e| Fail::new("key_rejected", format!("key pair {:?}/{:?} rejected: {}", sk_text, pk_text, e)).with("role", "private+public").with("error", format!("{}", e)))?;
    // (4) public key as trusted key of another node, then a real handshake in both directions
    let keys = test_keys();
    let me = CryptoConfig { private_key: Some(sk_text.to_string()), trusted_keys: vec![keys[1].1.clone()], ..base.clone() };
    let other = CryptoConfig { private_key: Some(keys[1].0.clone()), trusted_keys: vec![pk_text.to_string()], ..base.clone() };
    mk_crypto(node_id(2), &other, [1.0, 1.0, 1.0])
        .map_err(|e| Fail::new("key_rejected", format!("trusted key {:?} rejected: {}", pk_text, e)).with("role", "trusted").with("error", format!("{}", e)))?;
    if !try_handshake(&me, &other)? {
        return Err(Fail::new("handshake_failed", format!("node with key {:?} and node trusting {:?} do not connect", sk_text, pk_text)));
    }
    if !try_handshake(&other, &me)? {
        return Err(Fail::new("handshake_failed", format!("node trusting {:?} cannot dial node with key {:?}", pk_text, sk_text)));
    }
    // (5) the same as one entry of a longer trusted-key list, at every position (entries are parsed one after the other)
    for pos in 0..3usize {
        let mut list = vec![keys[2].1.clone(), keys[3].1.clone()];
        list.insert(pos, pk_text.to_string());
        let other = CryptoConfig { private_key: Some(keys[1].0.clone()), trusted_keys: list, ..base.clone() };
        mk_crypto(node_id(2), &other, [1.0, 1.0, 1.0]).map_err(|e| {
            Fail::new("key_rejected", format!("trusted key {:?} at list position {} rejected: {}", pk_text, pos, e)).with("role", "trusted_in_list").with("error", format!("{}", e))
        })?;
        if !try_handshake(&me, &other)? {
            return Err(Fail::new("handshake_failed", format!("node with key {:?} is not trusted when {:?} is entry {} of a 3-entry trusted-key list", sk_text, pk_text, pos)).with("role", "trusted_in_list"));
        }
        // and the other entries still denote their own keys
        let third = CryptoConfig { private_key: Some(keys[3].0.clone()), trusted_keys: vec![keys[1].1.clone()], ..base.clone() };
        if !try_handshake(&third, &other)? {
            return Err(Fail::new("handshake_failed", format!("a neighbouring entry of the trusted-key list stopped working with {:?} at position {}", pk_text, pos)).with("role", "trusted_in_list"));
        }
    }
    // (6) the node's OWN public key listed among its trusted keys next to a foreign one (a group that shares one key pair and
    // also admits an outsider): two nodes with this key pair still trust each other
    for pos in 0..2usize {
        let mut list = vec![keys[2].1.clone()];
        list.insert(pos, pk_text.to_string());
        let grp = CryptoConfig { private_key: Some(sk_text.to_string()), trusted_keys: list, ..base.clone() };
        if !try_handshake(&grp, &grp)? {
            return Err(Fail::new("handshake_failed", format!("two nodes with key pair {:?} that list their own public key at position {} of their trusted keys do not trust each other", pk_text, pos)).with("role", "own_key_in_trusted_list"));
        }
    }
    Ok(())
}

#[derive(Serialize, Deserialize, Clone, Debug)]
pub struct PwCase {
    pub password: String,
}

pub fn run_password(c: &PwCase) -> CaseResult {
    let (sk1, pk1) = Crypto::generate_keypair(Some(&c.password));
    let (sk2, pk2) = Crypto::generate_keypair(Some(&c.password));
    if (sk1.clone(), pk1.clone()) != (sk2, pk2) {
        return Err(Fail::new("nondeterministic", "generate_keypair differs between two calls"));
    }
    let lead = |t: &str| from_base62(t).map(|b| 32usize.saturating_sub(b.len())).unwrap_or(99) as u64;
    let (ls, lp) = (lead(&sk1), lead(&pk1));
    let tag = |f: Fail| f.with("seed_leading_zero_bytes", ls).with("pubkey_leading_zero_bytes", lp);
    // two nodes configured with the password alone trust each other
    let pw = CryptoConfig { password: Some(c.password.clone()), ..Default::default() };
    if !try_handshake(&pw, &pw).map_err(tag)? {
        return Err(tag(Fail::new("handshake_failed", "two nodes with the same password do not connect")));
    }
    // a node configured with the printed private key equals the password node
    let printed_node = CryptoConfig { private_key: Some(sk1.clone()), ..Default::default() };
    match mk_crypto(node_id(1), &printed_node, [1.0, 1.0, 1.0]) {
        Err(e) => {
            return Err(tag(Fail::new("key_rejected", format!("printed private key {:?} of password {:?} rejected: {}", sk1, c.password, e))
                .with("role", "private")
                .with("error", format!("{}", e))))
        }
        Ok(_) => {}
    }
    if !try_handshake(&pw, &printed_node).map_err(tag)? {
        return Err(tag(Fail::new("handshake_failed", "password node and node with the printed private key do not connect")));
    }
    check_printed_pair(&sk1, &pk1).map_err(tag)?;
    Ok(100 + ls * 4 + lp.min(3))
}

#[derive(Serialize, Deserialize, Clone, Debug)]
pub struct PwPairCase {
    pub a: String,
    pub b: String,
}

pub fn run_pw_pair(c: &PwPairCase) -> CaseResult {
    let a = CryptoConfig { password: Some(c.a.clone()), ..Default::default() };
    let b = CryptoConfig { password: Some(c.b.clone()), ..Default::default() };
    let ok = try_handshake(&a, &b)?;
    if c.a == c.b && !ok {
        return Err(Fail::new("handshake_failed", "same password rejected"));
    }
    if c.a != c.b && ok {
        return Err(Fail::new("different_passwords_connect", format!("{:?} and {:?} connect", c.a, c.b)));
    }
    Ok(if ok { 1 } else { 2 })
}

fn dictionary() -> Vec<String> {
    vec![
        "".to_string(),
        " ".to_string(),
        "a".to_string(),
        "A".to_string(),
        "pässwörd-ünicode-\u{1F511}".to_string(),
        "x".repeat(1024),
        "test123".to_string(),
        "mysecretkey".to_string(),
    ]
    .into_iter()
    // every length around the hash output (32) and block (64, 128) sizes: the two derivation sites (key generation and
    // node configuration) must agree for all of them
    .chain((0..=130usize).map(|n| "k".repeat(n)))
    .chain((1..=130usize).map(|n| (0..n).map(|i| (b'a' + ((i * 7 + n) % 26) as u8) as char).collect::<String>()))
    .chain([255usize, 256, 257].into_iter().map(|n| "z".repeat(n)))
    .collect()
}

pub fn run(ctx: &Ctx) {
    // codec
    let maxlen = ctx.tier.pick(2usize, 3usize);
    let total: u64 = (0..=maxlen).map(|l| 256u64.pow(l as u32)).sum();
    sweep_range(
        ctx,
        "codec",
        total,
        SweepOpts { trivial_classes: vec![0], chunk: 4096, ..Default::default() },
        |mut i| {
            let mut len = 0usize;
            loop {
                let n = 256u64.pow(len as u32);
                if i < n {
                    break;
                }
                i -= n;
                len += 1;
            }
            let mut bytes = vec![0u8; len];
            for k in 0..len {
                bytes[len - 1 - k] = (i >> (8 * k)) as u8;
            }
            CodecCase { bytes }
        },
        run_codec,
    );
    // longer structured strings for the codec: 32-byte values with leading zeros / 0xff runs
    let mut longs = vec![];
    for lead in 0..=4usize {
        for fill in [0x01u8, 0x3d, 0x3e, 0x80, 0xff] {
            for len in [8usize, 31, 32, 33, 64] {
                let mut b = vec![fill; len];
                for x in b.iter_mut().take(lead) {
                    *x = 0;
                }
                longs.push(CodecCase { bytes: b });
            }
        }
    }
    sweep_list(ctx, "codec_long", &longs, SweepOpts { trivial_classes: vec![0], ..Default::default() }, run_codec);

    // seeds with leading zero bytes
    let mut seeds = vec![];
    for lead in 0..=4usize {
        for r in 0..8u8 {
            let mut s: Vec<u8> = (0..32).map(|i| (i as u8).wrapping_mul(37).wrapping_add(r.wrapping_mul(11)).wrapping_add(1) | 1).collect();
            for x in s.iter_mut().take(lead) {
                *x = 0;
            }
            seeds.push(SeedCase { seed: s });
        }
    }
    // seeds whose PUBLIC key starts with a zero byte: searched deterministically
    let want = ctx.tier.pick(3, 8);
    let mut found = 0;
    let mut ctr: u32 = 0;
    while found < want && ctr < 200_000 {
        let mut s = [0x55u8; 32];
        s[28..].copy_from_slice(&ctr.to_be_bytes());
        let (_, _, pk) = printed(&s);
        if pk[0] == 0 {
            seeds.push(SeedCase { seed: s.to_vec() });
            found += 1;
        }
        ctr += 1;
    }
    sweep_list(ctx, "seeds", &seeds, SweepOpts { chunk: 1, ..Default::default() }, run_seed);

    // passwords
    let n = ctx.tier.pick(3000u32, 20000u32);
    let mut pws: Vec<PwCase> = dictionary().into_iter().map(|password| PwCase { password }).collect();
    for i in 0..n {
        pws.push(PwCase { password: format!("p{}", i) });
    }
    sweep_list(ctx, "passwords", &pws, SweepOpts { chunk: 4, ..Default::default() }, run_password);

    // different passwords must not connect
    let set: Vec<String> = dictionary().into_iter().take(6).chain((0..6).map(|i| format!("p{}", i))).collect();
    let mut pairs = vec![];
    for a in &set {
        for b in &set {
            pairs.push(PwPairCase { a: a.clone(), b: b.clone() });
        }
    }
    sweep_list(ctx, "password_pairs", &pairs, SweepOpts { chunk: 2, ..Default::default() }, run_pw_pair);
    ctx.assume("random key generation (no password) differs from password derivation only in the source of the 32 seed bytes; seeds are enumerated structurally instead of drawn at random");
    if ctx.tier == Tier::Quick {
        ctx.assume("quick tier: 3000 numbered passwords (thorough: 20000)");
    }
}

pub fn replay(family: &str, case: &Value) -> Option<CaseResult> {
    match family {
        "codec" | "codec_long" => replay_with::<CodecCase>(case, run_codec),
        "seeds" => replay_with::<SeedCase>(case, run_seed),
        "passwords" => replay_with::<PwCase>(case, run_password),
        "password_pairs" => replay_with::<PwPairCase>(case, run_pw_pair),
        _ => None,
    }
}
