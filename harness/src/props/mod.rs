//! One module per property; `registry()` is the table the CLI dispatches on.
use crate::mc::{CaseResult, Ctx};
use serde_json::Value;

pub mod common;
pub mod netsim;
pub mod modes;
pub mod c01;
pub mod c02;
pub mod c03;
pub mod c04;
pub mod c05;
pub mod c05e;
pub mod c05n;
pub mod c06;
pub mod c07;
pub mod c08;
pub mod c09;
pub mod c10;
pub mod c11;
pub mod c12;
pub mod c13;
pub mod c14;
pub mod c15;
pub mod c16;
pub mod c17;
pub mod c18;
pub mod c19;
pub mod c20;

pub struct Prop {
    pub id: &'static str,
    pub title: &'static str,
    /// evidence level (EVIDENCE.schema.json enum)
    pub level: &'static str,
    /// how cases are enumerated and what counts as non-trivial
    pub rule: &'static str,
    pub run: fn(&Ctx),
    pub replay: fn(&str, &Value) -> Option<CaseResult>,
}

pub fn registry() -> Vec<Prop> {
    vec![c01::prop(), c02::prop(), c03::prop(), c04::prop(), c05::prop(), c06::prop(), c07::prop(), c08::prop(), c09::prop(), c10::prop(), c11::prop(), c12::prop(), c13::prop(), c14::prop(), c15::prop(), c16::prop(), c17::prop(), c18::prop(), c19::prop(), c20::prop()]
}

/// Helper for replay functions: deserialize the stored case and run it.
pub fn replay_with<C: serde::de::DeserializeOwned>(case: &Value, run: impl Fn(&C) -> CaseResult) -> Option<CaseResult> {
    match serde_json::from_value::<C>(case.clone()) {
        Ok(c) => Some(run(&c)),
        Err(e) => {
            eprintln!("replay: cannot decode case: {}", e);
            None
        }
    }
}
