//! Helpers shared by the property checks: payload type, key material, two-party handshakes over real PeerCrypto.
use crate::{
    crypto::{verif as cv, Algorithms, Config as CryptoConfig, Crypto, MessageResult, Payload, PeerCrypto},
    error::Error,
    types::NodeId,
    util::MsgBuffer,
};
use ring::aead::{Algorithm, AES_128_GCM, AES_256_GCM, CHACHA20_POLY1305};
use std::{
    io::{Read, Write},
    sync::OnceLock,
};

pub const SPACE: usize = 100;

/// Opaque handshake payload for object-level checks.
#[derive(Debug, PartialEq, Clone)]
pub struct Blob(pub Vec<u8>);

impl Payload for Blob {
    fn write_to(&self, buffer: &mut MsgBuffer) {
        buffer.buffer().write_all(&self.0).expect("Buffer too small");
        buffer.set_length(self.0.len())
    }

    fn read_from<R: Read>(mut r: R) -> Result<Self, Error> {
        let mut data = Vec::new();
        r.read_to_end(&mut data).map_err(|_| Error::Parse("Buffer too small"))?;
        Ok(Blob(data))
    }
}

pub fn algo_by_id(id: u8) -> &'static Algorithm {
    match id {
        1 => &AES_128_GCM,
        2 => &AES_256_GCM,
        3 => &CHACHA20_POLY1305,
        _ => panic!("bad algorithm id"),
    }
}

pub fn algo_name(id: u8) -> &'static str {
    match id {
        0 => "PLAIN",
        1 => "AES128",
        2 => "AES256",
        3 => "CHACHA20",
        _ => "?",
    }
}

/// Key pairs (private text, public text) generated once per process through the repository's own generator
/// from fixed passwords; pairs whose text form is shorter than 32 bytes after decoding are skipped here
/// (that defect class is the subject of C18, not of the checks that merely need working keys).
pub fn test_keys() -> &'static Vec<(String, String)> {
    static KEYS: OnceLock<Vec<(String, String)>> = OnceLock::new();
    KEYS.get_or_init(|| {
        let mut v = vec![];
        let mut i = 0;
        while v.len() < 6 {
            let (sk, pk) = Crypto::generate_keypair(Some(&format!("verif-key-{}", i)));
            i += 1;
            let ok = crate::util::from_base62(&sk).map(|b| b.len() == 32).unwrap_or(false)
                && crate::util::from_base62(&pk).map(|b| b.len() == 32).unwrap_or(false);
            if ok {
                v.push((sk, pk));
            }
        }
        v
    })
}

pub fn node_id(n: u8) -> NodeId {
    let mut id = [0u8; 16];
    id[0] = n;
    id[15] = 0xa5;
    id
}

/// `Crypto` built through the repository's configuration path with the benchmark replaced by fixed speeds.
pub fn mk_crypto(nid: NodeId, cfg: &CryptoConfig, speeds: [f32; 3]) -> Result<Crypto, Error> {
    cv::set_speed_override(Some(speeds));
    let r = Crypto::new(nid, cfg);
    cv::set_speed_override(None);
    r
}

pub fn cfg_with_key(own: usize, trusted: &[usize], algorithms: &[&str]) -> CryptoConfig {
    let keys = test_keys();
    CryptoConfig {
        password: None,
        private_key: Some(keys[own].0.clone()),
        public_key: None,
        trusted_keys: trusted.iter().map(|i| keys[*i].1.clone()).collect(),
        algorithms: algorithms.iter().map(|s| s.to_string()).collect(),
    }
}

/// A pair of PeerCrypto<Blob> with mutual trust (same key), payloads [1] and [2], salts fixing the hash order.
pub fn mk_pair(a_salt: [u8; 4], b_salt: [u8; 4], algos: &[&str], speeds: [f32; 3]) -> (PeerCrypto<Blob>, PeerCrypto<Blob>) {
    let ca = mk_crypto(node_id(1), &cfg_with_key(0, &[0], algos), speeds).expect("crypto a");
    let cb = mk_crypto(node_id(2), &cfg_with_key(0, &[0], algos), speeds).expect("crypto b");
    cv::init_verif::set_salt_override(Some(a_salt));
    let a = ca.peer_instance(Blob(vec![1]));
    cv::init_verif::set_salt_override(Some(b_salt));
    let b = cb.peer_instance(Blob(vec![2]));
    cv::init_verif::set_salt_override(None);
    (a, b)
}

pub fn load(buf: &mut MsgBuffer, data: &[u8]) {
    buf.clear();
    buf.set_length(data.len());
    buf.message_mut().copy_from_slice(data);
}

/// Loads `data` and fills the rest of the buffer behind it with `tail` (the receive buffer keeps stale bytes).
pub fn load_with_tail(buf: &mut MsgBuffer, data: &[u8], tail: u8) {
    buf.clear();
    for b in buf.buffer().iter_mut() {
        *b = tail;
    }
    buf.set_length(data.len());
    buf.message_mut().copy_from_slice(data);
}

#[derive(Debug, Default)]
pub struct HsOutcome {
    pub a_done: Option<Blob>,
    pub b_done: Option<Blob>,
    pub a_err: Option<String>,
    pub b_err: Option<String>,
    pub datagrams: Vec<(bool, Vec<u8>)>, // (sent by a, bytes)
}

/// Loss-free handshake a -> b: a initiates, datagrams alternate until nobody replies.
pub fn handshake(a: &mut PeerCrypto<Blob>, b: &mut PeerCrypto<Blob>) -> HsOutcome {
    let mut out = HsOutcome::default();
    let mut buf = MsgBuffer::new(SPACE);
    if let Err(e) = a.initialize(&mut buf) {
        out.a_err = Some(format!("{}", e));
        return out;
    }
    let mut from_a = true;
    for _ in 0..8 {
        if buf.is_empty() {
            break;
        }
        let bytes = buf.message().to_vec();
        out.datagrams.push((from_a, bytes.clone()));
        load(&mut buf, &bytes);
        let (rx, done, err) =
            if from_a { (&mut *b, &mut out.b_done, &mut out.b_err) } else { (&mut *a, &mut out.a_done, &mut out.a_err) };
        match rx.handle_message(&mut buf) {
            Ok(MessageResult::Initialized(p)) => {
                *done = Some(p);
                buf.clear();
            }
            Ok(MessageResult::InitializedWithReply(p)) => {
                *done = Some(p);
            }
            Ok(MessageResult::Reply) => {}
            Ok(MessageResult::None) => buf.clear(),
            Ok(MessageResult::Message(_)) => buf.clear(),
            Err(e) => {
                *err = Some(format!("{}", e));
                buf.clear();
            }
        }
        from_a = !from_a;
    }
    out
}

/// Seals `payload` as message type `t` at `tx` and opens it at `rx`; returns what `rx` reported.
pub fn probe(tx: &mut PeerCrypto<Blob>, rx: &mut PeerCrypto<Blob>, t: u8, payload: &[u8]) -> Result<(u8, Vec<u8>, Vec<u8>), String> {
    let mut buf = MsgBuffer::new(SPACE);
    load(&mut buf, payload);
    tx.send_message(t, &mut buf).map_err(|e| format!("send: {}", e))?;
    let wire = buf.message().to_vec();
    load(&mut buf, &wire);
    match rx.handle_message(&mut buf) {
        Ok(MessageResult::Message(t2)) => Ok((t2, buf.message().to_vec(), wire)),
        Ok(other) => Err(format!("unexpected result {:?}", other)),
        Err(e) => Err(format!("open: {}", e)),
    }
}
