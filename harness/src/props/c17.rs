//! C17 Beacons round-trip, are found inside arbitrary text, respect age and password.
//! E3: complete enumeration of hour stamps, list shapes, passwords, embeddings, age/ttl boundaries and
//! marker-overlap texts through the real BeaconSerializer.
use super::{replay_with, Prop};
use crate::{
    beacon::BeaconSerializer,
    mc::{sweep::*, CaseResult, Ctx, Fail},
    util::MockTimeSource,
};
use serde_json::Value;
use std::net::SocketAddr;

type Ser = BeaconSerializer<MockTimeSource>;

pub fn prop() -> Prop {
    Prop {
        id: "C17",
        title: "Beacons round-trip, are found inside arbitrary text, respect age and password",
        level: "exploration",
        rule: "complete enumeration of: all 65536 hour stamps x 3 address lists; 45 list shapes (0..=8 IPv4 x 0..=4 IPv6) x 64 stamps; \
               a 200-entry password dictionary; every separator position and prefix/suffix embedding (incl. partial/overlapping \
               markers, several beacons per text); ttl x age boundary grid in both directions; all ordered pairs of 20 passwords; \
               passwords with overlapping markers searched among pw0..pw1999; all base-62 bodies of length <= 2 (3 thorough) and \
               every single-character substitution of a genuine beacon for panic freedom. non-trivial = decode returned a non-empty \
               list that was compared, or an age/password case that must be (and was) ignored",
        run,
        replay,
    }
}

fn addr_pool() -> (Vec<SocketAddr>, Vec<SocketAddr>) {
    let v4: Vec<SocketAddr> = ["1.2.3.4:5678", "6.6.6.6:53", "0.0.0.0:0", "255.255.255.255:65535", "10.0.0.1:3210", "192.168.1.1:1", "127.0.0.1:80", "8.8.8.8:443"]
        .iter()
        .map(|s| s.parse().unwrap())
        .collect();
    // incl. an IPv4-mapped and an IPv4-compatible IPv6 address: they are IPv6 entries and must come back as such
    let v6: Vec<SocketAddr> = ["[::1]:5678", "[::ffff:1.2.3.4]:5678", "[ffff:ffff:ffff:ffff:ffff:ffff:ffff:ffff]:65535", "[::1.2.3.4]:80", "[fe80::1]:0", "[2001:db8::42]:3210"]
        .iter()
        .map(|s| s.parse().unwrap())
        .collect();
    (v4, v6)
}

/// List with n4 IPv4 and n6 IPv6 entries, interleaved (IPv6 first when `v6_first`).
fn mk_list(n4: usize, n6: usize, v6_first: bool) -> Vec<SocketAddr> {
    let (v4, v6) = addr_pool();
    let mut out = vec![];
    if v6_first {
        out.extend_from_slice(&v6[..n6]);
        out.extend_from_slice(&v4[..n4]);
    } else {
        let mut i4 = 0;
        let mut i6 = 0;
        while i4 < n4 || i6 < n6 {
            if i4 < n4 {
                out.push(v4[i4]);
                i4 += 1;
            }
            if i6 < n6 {
                out.push(v6[i6]);
                i6 += 1;
            }
        }
    }
    out
}

/// The format's order: all IPv4 in input order, then all IPv6 in input order.
fn normalise(list: &[SocketAddr]) -> Vec<SocketAddr> {
    let mut out: Vec<SocketAddr> = list.iter().filter(|a| a.is_ipv4()).cloned().collect();
    out.extend(list.iter().filter(|a| a.is_ipv6()).cloned());
    out
}

fn set_hour(h: u32, sec: u32) {
    MockTimeSource::set_time(h as i64 * 3600 + sec as i64);
}

#[derive(Serialize, Deserialize, Clone, Debug)]
pub struct RtCase {
    pub password: String,
    pub n4: usize,
    pub n6: usize,
    pub v6_first: bool,
    pub hour: u32,
    /// 0 = bare beacon; otherwise an embedding id (see `embed`)
    pub embedding: u32,
    pub sep_pos: i32,
}

const SEPARATORS: [&str; 4] = ["\n", " ", "-", "./:+=\r\n\t"];

fn embed(ser: &Ser, beacon: &str, c: &RtCase, other: &str) -> String {
    // markers: first/last 5 chars of any encoding made with this password
    let begin = &beacon[..5];
    let end = &beacon[beacon.len() - 5..];
    let mut b = beacon.to_string();
    if c.sep_pos >= 0 {
        let sep = SEPARATORS[(c.sep_pos as usize) % 4];
        let pos = (c.sep_pos as usize / 4).min(b.len());
        b.insert_str(pos, sep);
    }
    let _ = ser;
    match c.embedding {
        0 => b,
        1 => format!("hello world {} bye", b),
        2 => format!("abc123{}xyz789", b),
        3 => format!("{}{}", &begin[..3], b),
        4 => format!("{}{}", b, &end[..2]),
        5 => format!("{}...{}", &end[..4], b),
        6 => format!("{} {}", b, &begin[..4]),
        7 => format!("<html><body><p>{}</p></body></html>", b),
        8 => format!("{}\n{}", other, b),             // a second (different) beacon before
        9 => format!("{} {} {}", other, b, other),    // three beacons
        10 => format!("{}{}", end, b),                // stray end marker before
        11 => format!("{}{}", b, begin),              // stray begin marker after
        // a partial begin marker of every length directly before the beacon, and after a separator
        12 => format!("{}{}", &begin[..1], b),
        13 => format!("{}{}", &begin[..2], b),
        14 => format!("{}{}", &begin[..4], b),
        15 => format!("{} {}", &begin[..4], b),
        16 => format!("{}{}{}", &begin[..4], &begin[..4], b),
        _ => b,
    }
}

pub fn run_roundtrip(c: &RtCase) -> CaseResult {
    let ser = Ser::new(c.password.as_bytes());
    set_hour(c.hour, 17);
    let list = mk_list(c.n4, c.n6, c.v6_first);
    let beacon = ser.encode(&list);
    if !beacon.chars().all(|ch| ch.is_ascii_alphanumeric()) {
        return Err(Fail::new("not_alnum", format!("beacon {:?} is not alphanumeric", beacon)));
    }
    let other_list = mk_list(1, 0, false);
    let other = ser.encode(&other_list);
    let text = embed(&ser, &beacon, c, &other);
    let got = ser.decode(&text, None);
    let mut want = vec![];
    let n_other_before = match c.embedding {
        8 | 9 => 1,
        _ => 0,
    };
    for _ in 0..n_other_before {
        want.extend(normalise(&other_list));
    }
    want.extend(normalise(&list));
    if c.embedding == 9 {
        want.extend(normalise(&other_list));
    }
    if got != want {
        // classify: does the masked body start with a zero byte (shortened text form)?
        let body_len = beacon.len() - 10;
        let expect_bytes = 2 + 1 + 6 * c.n4 + 18 * c.n6 + 1;
        let decoded_len = crate::util::from_base62(&beacon[5..5 + body_len]).map(|b| b.len()).unwrap_or(0);
        return Err(Fail::new("roundtrip", format!("decode({:?}) = {:?}, expected {:?}", text, got, want))
            .with("body_short_by", (expect_bytes as i64 - decoded_len as i64))
            .with("embedding", c.embedding as u64)
            .with("got_empty", got.is_empty()));
    }
    Ok(1 + (want.len() as u64).min(3) + 10 * (c.embedding as u64))
}

#[derive(Serialize, Deserialize, Clone, Debug)]
pub struct AgeCase {
    pub made_hour: u32,
    pub read_hour: u32,
    pub ttl: u16,
}

pub fn run_age(c: &AgeCase) -> CaseResult {
    let ser = Ser::new(b"agekey");
    set_hour(c.made_hour, 0);
    let list = mk_list(2, 1, false);
    let mut beacon = ser.encode(&list);
    // avoid the (separately reported) text-form defect for bodies starting with a zero byte:
    // pick another list shape for such instants so that the age logic itself is what is tested
    let mut n4 = 2;
    while ser.decode(&beacon, None).is_empty() && n4 < 8 {
        n4 += 1;
        beacon = ser.encode(&mk_list(n4, 1, false));
    }
    let want_list = normalise(&mk_list(n4, 1, false));
    set_hour(c.read_hour, 3599);
    let got = ser.decode(&beacon, Some(c.ttl));
    let fwd = (c.read_hour.wrapping_sub(c.made_hour)) & 0xffff;
    let back = (c.made_hour.wrapping_sub(c.read_hour)) & 0xffff;
    let ignored = fwd.min(back) > c.ttl as u32;
    if ignored && !got.is_empty() {
        return Err(Fail::new("age_accepted", format!("age fwd={} back={} ttl={} must be ignored, got {:?}", fwd, back, c.ttl, got)));
    }
    if !ignored && got != want_list {
        return Err(Fail::new("age_rejected", format!("age fwd={} back={} ttl={} must be accepted, got {:?}", fwd, back, c.ttl, got)));
    }
    Ok(if ignored { 2 } else { 3 })
}

#[derive(Serialize, Deserialize, Clone, Debug)]
pub struct PwPair {
    pub a: String,
    pub b: String,
}

pub fn run_wrong_password(c: &PwPair) -> CaseResult {
    set_hour(2000, 0);
    let sa = Ser::new(c.a.as_bytes());
    let sb = Ser::new(c.b.as_bytes());
    let list = mk_list(2, 1, false);
    let beacon = sa.encode(&list);
    let got = sb.decode(&format!("x {} y", beacon), None);
    if c.a == c.b {
        // equality case is the round trip (kept so that the pair grid is complete)
        return Ok(1);
    }
    if !got.is_empty() {
        return Err(Fail::new("wrong_password_accepted", format!("beacon of {:?} decoded with {:?}: {:?}", c.a, c.b, got)));
    }
    Ok(2)
}

#[derive(Serialize, Deserialize, Clone, Debug)]
pub struct TextCase {
    pub password: String,
    /// text = parts joined; tokens "B" = begin marker, "E" = end marker, "E1" = end[1..], "B4" = begin[..4], "G" = genuine beacon, other = literal
    pub parts: Vec<String>,
}

fn build_text(ser: &Ser, c: &TextCase) -> String {
    set_hour(2000, 0);
    let genuine = ser.encode(&mk_list(1, 0, false));
    let begin = genuine[..5].to_string();
    let end = genuine[genuine.len() - 5..].to_string();
    let mut t = String::new();
    for p in &c.parts {
        match p.as_str() {
            "B" => t.push_str(&begin),
            "E" => t.push_str(&end),
            "G" => t.push_str(&genuine),
            "BODY" => t.push_str(&genuine[5..genuine.len() - 5]),
            s if s.starts_with("E>") => t.push_str(&end[s[2..].parse::<usize>().unwrap().min(5)..]),
            s if s.starts_with("B<") => t.push_str(&begin[..s[2..].parse::<usize>().unwrap().min(5)]),
            s if s.starts_with("G<") => {
                let n = s[2..].parse::<usize>().unwrap().min(genuine.len());
                t.push_str(&genuine[..n])
            }
            s if s.starts_with("SUB:") => {
                // SUB:<pos>:<char> single-character substitution in the genuine beacon
                let mut it = s[4..].splitn(2, ':');
                let pos: usize = it.next().unwrap().parse().unwrap();
                let ch = it.next().unwrap().chars().next().unwrap();
                let mut g: Vec<char> = genuine.chars().collect();
                if pos < g.len() {
                    g[pos] = ch;
                }
                t.extend(g);
            }
            s => t.push_str(s),
        }
    }
    t
}

/// Panic freedom on arbitrary text (the sweep engine turns a panic into a violation).
pub fn run_text(c: &TextCase) -> CaseResult {
    let ser = Ser::new(c.password.as_bytes());
    let text = build_text(&ser, c);
    let got1 = ser.decode(&text, None);
    let got2 = ser.decode(&text, Some(0));
    let got3 = ser.decode(&text, Some(65535));
    Ok(1 + got1.len().min(3) as u64 + 4 * got2.len().min(3) as u64 + 16 * got3.len().min(3) as u64)
}

fn passwords(n: usize) -> Vec<String> {
    let mut v = vec!["".to_string(), "a".to_string(), "mysecretkey".to_string(), "pässwörd-\u{1F511}".to_string(), "k".repeat(1024)];
    let mut i = 0;
    while v.len() < n {
        v.push(format!("pw{}", i));
        i += 1;
    }
    v
}

/// Passwords whose begin marker has a border (a proper prefix that is also its suffix): a partial begin marker in front of the
/// beacon then forms an earlier, overlapping occurrence of the begin marker.
fn bordered_passwords(limit: usize, max: usize) -> Vec<(String, usize)> {
    let mut out = vec![];
    set_hour(2000, 0);
    for i in 0..limit {
        let pw = format!("pw{}", i);
        let ser = Ser::new(pw.as_bytes());
        let g = ser.encode(&[]);
        let begin = &g[..5];
        for k in (1..5).rev() {
            if begin[..k] == begin[5 - k..] {
                out.push((pw.clone(), k));
                break;
            }
        }
        if out.len() >= max {
            break;
        }
    }
    out
}

/// Passwords whose begin marker's suffix equals the end marker's prefix (k >= 1 characters).
fn overlapping_passwords(limit: usize, max: usize) -> Vec<(String, usize)> {
    let mut out = vec![];
    set_hour(2000, 0);
    for i in 0..limit {
        let pw = format!("pw{}", i);
        let ser = Ser::new(pw.as_bytes());
        let g = ser.encode(&[]);
        let begin = &g[..5];
        let end = &g[g.len() - 5..];
        for k in (1..5).rev() {
            if begin[5 - k..] == end[..k] {
                out.push((pw.clone(), k));
                break;
            }
        }
        if out.len() >= max {
            break;
        }
    }
    out
}

const B62: &[u8] = b"0123456789ABCDEFGHIJKLMNOPQRSTUVWXYZabcdefghijklmnopqrstuvwxyz";

pub fn run(ctx: &Ctx) {
    let quick = ctx.tier == crate::mc::Tier::Quick;
    // (1) all hour stamps x 3 lists
    let lists = [(2usize, 0usize, false), (1, 1, true), (0, 0, false)];
    sweep_range(
        ctx,
        "hours",
        65536 * 3,
        SweepOpts { chunk: 512, deadline_secs: Some(60), ..Default::default() },
        |i| {
            let (n4, n6, v6_first) = lists[(i / 65536) as usize];
            RtCase { password: "mysecretkey".into(), n4, n6, v6_first, hour: (i % 65536) as u32, embedding: 0, sep_pos: -1 }
        },
        run_roundtrip,
    );
    // (2) shapes x 64 stamps
    let mut shapes = vec![];
    for n4 in 0..=8 {
        for n6 in 0..=4 {
            for k in 0..64u32 {
                shapes.push(RtCase { password: "shape".into(), n4, n6, v6_first: k % 2 == 1, hour: k * 1021 + 3, embedding: 0, sep_pos: -1 });
            }
        }
    }
    sweep_list(ctx, "shapes", &shapes, SweepOpts::default(), run_roundtrip);
    // (3) password dictionary x 8 stamps
    let mut pwc = vec![];
    for pw in passwords(200) {
        for k in 0..8u32 {
            pwc.push(RtCase { password: pw.clone(), n4: 2, n6: 1, v6_first: false, hour: 2000 + k * 4099, embedding: (k % 3) as u32, sep_pos: -1 });
        }
    }
    sweep_list(ctx, "passwords", &pwc, SweepOpts::default(), run_roundtrip);
    // (4) embeddings x separator positions
    let mut emb = vec![];
    for (n4, n6) in [(1usize, 0usize), (2, 1), (0, 0)] {
        let probe_len = 10 + 60; // upper bound for positions; `embed` clamps to the beacon length
        for e in 0..=11u32 {
            for sep_pos in -1..(4 * probe_len as i32) {
                if e > 0 && sep_pos >= 0 && sep_pos % 9 != 0 && quick {
                    continue;
                }
                for hour in [2000u32, 2001] {
                    emb.push(RtCase { password: "embed".into(), n4, n6, v6_first: false, hour, embedding: e, sep_pos });
                }
            }
        }
    }
    // partial begin markers in front of the beacon, for an ordinary password and for passwords whose begin marker overlaps itself
    let bordered = bordered_passwords(2000, ctx.tier.pick(6, 24));
    let mut pws: Vec<String> = vec!["embed".to_string()];
    pws.extend(bordered.iter().map(|b| b.0.clone()));
    for pw in &pws {
        for e in 12..=16u32 {
            for (n4, n6) in [(1usize, 0usize), (0, 0)] {
                emb.push(RtCase { password: pw.clone(), n4, n6, v6_first: false, hour: 2000, embedding: e, sep_pos: -1 });
            }
        }
    }
    ctx.assume(&format!("passwords whose begin marker has a border (prefix = suffix) found among pw0..pw1999: {:?}", bordered));
    sweep_list(ctx, "embeddings", &emb, SweepOpts::default(), run_roundtrip);
    // (5) age grid
    let mut ages = vec![];
    let ttls: Vec<u16> = if quick {
        (0..=64).chain([100, 255, 256, 1000, 32766, 32767, 32768, 32769, 65534, 65535]).collect()
    } else {
        (0..=65535u32).map(|t| t as u16).collect()
    };
    for &ttl in &ttls {
        for made in [0u32, 1000, 65535] {
            for d in [ttl as u32, ttl as u32 + 1] {
                ages.push(AgeCase { made_hour: made, read_hour: (made + d) & 0xffff, ttl });
                ages.push(AgeCase { made_hour: made, read_hour: made.wrapping_sub(d) & 0xffff, ttl });
            }
        }
    }
    for age in [0u32, 1, 32767, 32768, 32769, 65535] {
        for ttl in [0u16, 1, 2, 32766, 32767, 32768, 65534, 65535] {
            ages.push(AgeCase { made_hour: 5, read_hour: (5 + age) & 0xffff, ttl });
        }
    }
    sweep_list(ctx, "age", &ages, SweepOpts::default(), run_age);
    // (6) wrong passwords
    let pws = passwords(20);
    let mut pairs = vec![];
    for a in &pws {
        for b in &pws {
            pairs.push(PwPair { a: a.clone(), b: b.clone() });
        }
    }
    sweep_list(ctx, "wrong_password", &pairs, SweepOpts { trivial_classes: vec![1], ..Default::default() }, run_wrong_password);
    // (7) texts: marker fragments, overlapping markers, truncations, substitutions, short bodies
    let mut texts = vec![];
    let mut pw_set: Vec<String> = vec!["textkey".to_string(), "".to_string()];
    let overl = overlapping_passwords(2000, ctx.tier.pick(4, 12));
    for (pw, _) in &overl {
        pw_set.push(pw.clone());
    }
    // "\u{b2}" (superscript two), "\u{663}" (Arabic-Indic three), "\u{ff13}" (fullwidth three), "\u{bd}" (one half): numeric
    // characters outside ASCII; "\u{e9}" a letter outside ASCII
    let frag: Vec<String> = ["B", "E", "G", "BODY", "E>1", "E>2", "E>3", "E>4", "B<1", "B<2", "B<3", "B<4", "x", "0", " ", "", "\u{b2}", "\u{663}", "\u{ff13}\u{bd}", "\u{e9}"]
        .iter()
        .map(|s| s.to_string())
        .collect();
    for pw in &pw_set {
        // all sequences of up to 3 fragments
        for a in &frag {
            texts.push(TextCase { password: pw.clone(), parts: vec![a.clone()] });
            for b in &frag {
                texts.push(TextCase { password: pw.clone(), parts: vec![a.clone(), b.clone()] });
                for c in &frag {
                    texts.push(TextCase { password: pw.clone(), parts: vec![a.clone(), b.clone(), c.clone()] });
                }
            }
        }
        // every truncation of a genuine beacon, alone and followed by an end marker
        for n in 0..40 {
            texts.push(TextCase { password: pw.clone(), parts: vec![format!("G<{}", n)] });
            texts.push(TextCase { password: pw.clone(), parts: vec![format!("G<{}", n), "E".into()] });
        }
    }
    // substitutions and short bodies for one password
    let chars: Vec<u8> = if quick { b"0zZ19aA5".to_vec() } else { B62.to_vec() };
    for pos in 0..24 {
        for &ch in &chars {
            texts.push(TextCase { password: "textkey".into(), parts: vec![format!("SUB:{}:{}", pos, ch as char)] });
        }
    }
    let maxlen = ctx.tier.pick(2, 3);
    let mut bodies: Vec<String> = vec!["".into()];
    let mut cur: Vec<String> = vec!["".into()];
    for _ in 0..maxlen {
        let mut next = vec![];
        for s in &cur {
            for &ch in B62 {
                next.push(format!("{}{}", s, ch as char));
            }
        }
        bodies.extend(next.iter().cloned());
        cur = next;
    }
    for b in bodies {
        texts.push(TextCase { password: "textkey".into(), parts: vec!["B".into(), b, "E".into()] });
    }
    let st = sweep_list(ctx, "texts", &texts, SweepOpts { trivial_classes: vec![1], deadline_secs: Some(60), ..Default::default() }, run_text);
    let _ = st;
    ctx.assume(&format!("passwords with overlapping begin/end markers found among pw0..pw1999: {:?}", overl));
    ctx.assume("a beacon's integrity byte is 8 bits: substituted bodies may legitimately decode to other addresses (only panic freedom is demanded for them)");
}

pub fn replay(family: &str, case: &Value) -> Option<CaseResult> {
    match family {
        "hours" | "shapes" | "passwords" | "embeddings" => replay_with::<RtCase>(case, run_roundtrip),
        "age" => replay_with::<AgeCase>(case, run_age),
        "wrong_password" => replay_with::<PwPair>(case, run_wrong_password),
        "texts" => replay_with::<TextCase>(case, run_text),
        _ => None,
    }
}
