//! C02 Payload travels sealed: confidential, tamper-evident, delivered byte-identical.
//! E3+E4: (a) real CryptoCore pairs: lengths x offsets round trip, cleartext search, every bit flip / truncation /
//! reflection / cross-pair / guessable-key forgery of sealed datagrams; (b) every negotiated outcome through real
//! handshakes; (c) 3-node meshes: wire capture searched for cleartext, every wire datagram mutated and injected into
//! every ordered connection.
use super::{common::*, netsim::*, replay_with, Prop};
use crate::{
    crypto::{verif as cv, PeerCrypto},
    device::Type,
    mc::{sweep::*, util, CaseResult, Ctx, Fail, Tier},
    payload::{Frame, Packet, Protocol},
    types::Mode,
    util::MsgBuffer,
};
use ring::aead::{LessSafeKey, UnboundKey};
use serde_json::Value;

pub fn prop() -> Prop {
    Prop {
        id: "C02",
        title: "Payload travels sealed: confidential, tamper-evident, delivered byte-identical",
        level: "fault_enumeration",
        rule: "complete enumeration of: (a) 3 ciphers x payload lengths {0..=300, 511, 512, 1000, 1400, 1500, 8999, 9000} x buffer offsets {8,16,100}: byte-identical \
               round trip, no 8-byte cleartext window on the wire; for lengths 0..=48 (300 thorough) every single-bit flip, every truncation, reflection to the sealer, \
               injection into a pair with other keys, forgeries sealed with guessable keys under every key id and both halves: all must fail and leave the replay \
               window unchanged; (b) 64 negotiated configurations through real handshakes (3 ciphers, plain/plain, plain on one side only, mixed lists), 1401 pairs of cipher lists \
               as a user may write them (plain needs a documented word on both ends), a scripted peer superseded by a new one on the same address x age x node id x \
               lateness (old session dropped, new session carries payload); (c) router and \
               switch 3-node meshes: every wire datagram x {bit flips, truncations, reflection, injection into each of the 6 ordered connections}: no interface write, \
               no state change, and the capture contains no 8-byte window of any payload or claim. Plus 13/22-node switch meshes (one interface read sealed for many peers: byte-identical delivery). non-trivial = altered sealed datagram that reached the AEAD open",
        run,
        replay,
    }
}

fn pattern(len: usize, salt: u8) -> Vec<u8> {
    // position-coded so that any 8-byte window is unmistakable
    (0..len).map(|i| ((i as u32 * 37 + (i as u32 >> 8) * 11 + salt as u32) % 251) as u8 + 1).collect()
}

fn contains_window(wire: &[u8], clear: &[u8]) -> bool {
    if clear.len() < 8 {
        return false;
    }
    clear.windows(8).any(|w| wire.windows(8).any(|x| x == w))
}

#[derive(Serialize, Deserialize, Clone, Debug)]
pub struct CoreCase {
    pub cipher: u8,
    pub len: usize,
    pub offset: usize,
    pub mutate: bool,
}

fn seal(core: &mut cv::CryptoCore, payload: &[u8], offset: usize) -> Vec<u8> {
    let mut buf = MsgBuffer::new(offset);
    buf.set_length(payload.len());
    buf.message_mut().copy_from_slice(payload);
    core.encrypt(&mut buf);
    buf.message().to_vec()
}

fn open(core: &mut cv::CryptoCore, wire: &[u8], offset: usize) -> Result<Vec<u8>, String> {
    let mut buf = MsgBuffer::new(offset);
    buf.set_length(wire.len());
    buf.message_mut().copy_from_slice(wire);
    core.decrypt(&mut buf).map(|_| buf.message().to_vec()).map_err(|e| format!("{}", e))
}

pub fn run_core(c: &CoreCase) -> CaseResult {
    let algo = algo_by_id(c.cipher);
    let (mut tx, mut rx) = cv::create_dummy_pair(algo);
    let (mut tx2, mut rx2) = cv::create_dummy_pair(algo);
    let payload = pattern(c.len, c.cipher);
    let wire = seal(&mut tx, &payload, c.offset);
    if wire.len() != c.len + 24 {
        return Err(Fail::new("envelope_size", format!("sealed length {} for payload {}", wire.len(), c.len)));
    }
    if contains_window(&wire, &payload) {
        return Err(Fail::new("cleartext_on_wire", "an 8-byte window of the payload appears in the sealed datagram"));
    }
    let mut class = 1;
    if c.mutate {
        let tag = |f: Fail| f.with("cipher", algo_name(c.cipher));
        let before = rx.verif_state();
        let mut check_rejected = |rx: &mut cv::CryptoCore, d: &[u8], what: &str, detail: String| -> Result<(), Fail> {
            match open(rx, d, c.offset) {
                Ok(_) => Err(tag(Fail::new("altered_accepted", format!("{}: {} opened", what, detail)).with("alteration", what.to_string()))),
                Err(_) => {
                    if rx.verif_state() != before {
                        return Err(tag(Fail::new("window_moved", format!("{}: rejected datagram changed the replay window", what)).with("alteration", what.to_string())));
                    }
                    Ok(())
                }
            }
        };
        for bit in 0..wire.len() * 8 {
            let mut d = wire.clone();
            d[bit / 8] ^= 1 << (bit % 8);
            let what = if bit < 8 {
                if bit % 8 >= 2 {
                    "flip_keyid_high_bits"
                } else {
                    "flip_keyid_low_bits"
                }
            } else if bit < 64 {
                "flip_counter"
            } else if bit < (wire.len() - 16) * 8 {
                "flip_ciphertext"
            } else {
                "flip_tag"
            };
            check_rejected(&mut rx, &d, what, format!("bit {} of a {}-byte datagram", bit, wire.len()))?;
        }
        for cut in 0..wire.len() {
            check_rejected(&mut rx, &wire[..cut], "truncation", format!("to {} of {} bytes", cut, wire.len()))?;
        }
        // reflection: back to the end that sealed it
        match open(&mut tx, &wire, c.offset) {
            Ok(_) => return Err(tag(Fail::new("reflection_accepted", "the sealing end opened its own datagram"))),
            Err(_) => {}
        }
        // another connection (other keys), both directions
        for (name, core) in [("rx2", &mut rx2), ("tx2", &mut tx2)] {
            if open(core, &wire, c.offset).is_ok() {
                return Err(tag(Fail::new("cross_connection_accepted", format!("datagram opened at {} of another connection", name))));
            }
        }
        // forgeries sealed with guessable keys, for every key id and both halves
        for fill in [0x00u8, 0xff, 0x01, 0x42] {
            for half in [false, true] {
                let guess = LessSafeKey::new(UnboundKey::new(algo, &vec![fill; algo.key_len()]).unwrap());
                let mut forger = cv::CryptoCore::new(guess, half);
                let mut f = seal(&mut forger, &payload, c.offset);
                for key_id in 0..4u8 {
                    f[0] = key_id;
                    check_rejected(&mut rx, &f, "guessable_key", format!("key bytes {:#x}, key id {}, half {}", fill, key_id, half))?;
                }
            }
        }
        class = 2;
    }
    // genuine datagram still opens, byte-identical
    match open(&mut rx, &wire, c.offset) {
        Ok(p) if p == payload => Ok(class),
        Ok(_) => Err(Fail::new("payload_mismatch", "round trip changed the payload")),
        Err(e) => Err(Fail::new("genuine_rejected", format!("genuine datagram does not open: {}", e))),
    }
}

// ---------- (b) negotiated outcomes ----------

#[derive(Serialize, Deserialize, Clone, Debug)]
pub struct NegCase {
    pub a: Vec<String>,
    pub b: Vec<String>,
}

pub fn run_neg(c: &NegCase) -> CaseResult {
    let ar: Vec<&str> = c.a.iter().map(|s| s.as_str()).collect();
    let br: Vec<&str> = c.b.iter().map(|s| s.as_str()).collect();
    let ca = mk_crypto(node_id(1), &cfg_with_key(0, &[0], &ar), [100.0, 90.0, 80.0]).map_err(|e| Fail::new("config", format!("{}", e)))?;
    let cb = mk_crypto(node_id(2), &cfg_with_key(0, &[0], &br), [100.0, 90.0, 80.0]).map_err(|e| Fail::new("config", format!("{}", e)))?;
    let pa = pattern(40, 7);
    let pb = pattern(40, 9);
    let mut a: PeerCrypto<Blob> = ca.peer_instance(Blob(pa.clone()));
    let mut b: PeerCrypto<Blob> = cb.peer_instance(Blob(pb.clone()));
    let out = handshake(&mut a, &mut b);
    let both_plain = c.a.iter().any(|x| x == "plain") && c.b.iter().any(|x| x == "plain");
    let common = ["aes128", "aes256", "chacha20"].iter().any(|x| c.a.iter().any(|y| y == x) && c.b.iter().any(|y| y == x));
    if !both_plain && !common {
        if out.a_done.is_some() || out.b_done.is_some() {
            return Err(Fail::new("connected_without_common_cipher", "handshake completed without a common cipher"));
        }
        return Ok(0);
    }
    if out.a_done != Some(Blob(pb.clone())) || out.b_done != Some(Blob(pa.clone())) {
        return Err(Fail::new("handshake_failed", format!("{:?} {:?}", out.a_err, out.b_err)));
    }
    let plain_selected = a.algorithm_name() == "PLAIN";
    if plain_selected != both_plain {
        return Err(Fail::new("plain_mismatch", format!("selected {} but both_plain={}", a.algorithm_name(), both_plain)));
    }
    // handshake payloads (node information) must not be readable on the wire unless plain
    for (_, d) in &out.datagrams {
        if !both_plain && (contains_window(d, &pa) || contains_window(d, &pb)) {
            return Err(Fail::new("cleartext_on_wire", "handshake payload readable on the wire"));
        }
    }
    for t in [0u8, 1] {
        for len in [0usize, 1, 8, 100, 1400] {
            let p = pattern(len, 3);
            let (t2, got, wire) = probe(&mut a, &mut b, t, &p).map_err(|e| Fail::new("probe_failed", e))?;
            if t2 != t || got != p {
                return Err(Fail::new("payload_mismatch", "a->b round trip changed type or payload"));
            }
            if !both_plain && contains_window(&wire, &p) {
                return Err(Fail::new("cleartext_on_wire", format!("payload readable on the wire with {}", a.algorithm_name())));
            }
            let (_, got, wire) = probe(&mut b, &mut a, t, &p).map_err(|e| Fail::new("probe_failed", e))?;
            if got != p {
                return Err(Fail::new("payload_mismatch", "b->a round trip changed the payload"));
            }
            if !both_plain && contains_window(&wire, &p) {
                return Err(Fail::new("cleartext_on_wire", "payload readable on the wire"));
            }
        }
    }
    Ok(if both_plain { 1 } else { 2 })
}

// ---------- (b2) what the configuration says: plain needs an explicit word on BOTH ends ----------

/// Cipher lists as a user may write them (documented names in any case, documented aliases, near misses, unknown
/// words, empty strings). A node may refuse to start; if both start and connect, payload is sealed unless BOTH lists
/// contain one of the documented words for unencrypted operation.
pub fn run_names(c: &NegCase) -> CaseResult {
    let ar: Vec<&str> = c.a.iter().map(|s| s.as_str()).collect();
    let br: Vec<&str> = c.b.iter().map(|s| s.as_str()).collect();
    let explicit = |l: &Vec<String>| l.iter().any(|n| ["PLAIN", "NONE", "UNENCRYPTED"].contains(&n.to_uppercase().as_str()));
    let (ca, cb) = match (mk_crypto(node_id(1), &cfg_with_key(0, &[0], &ar), [100.0, 90.0, 80.0]), mk_crypto(node_id(2), &cfg_with_key(0, &[0], &br), [100.0, 90.0, 80.0])) {
        (Ok(a), Ok(b)) => (a, b),
        _ => return Ok(0), // refused to start
    };
    let pa = pattern(40, 7);
    let pb = pattern(40, 9);
    let mut a: PeerCrypto<Blob> = ca.peer_instance(Blob(pa.clone()));
    let mut b: PeerCrypto<Blob> = cb.peer_instance(Blob(pb.clone()));
    let out = handshake(&mut a, &mut b);
    if out.a_done.is_none() || out.b_done.is_none() {
        if out.a_done.is_some() != out.b_done.is_some() {
            return Err(Fail::new("half_open", format!("{:?} / {:?}: one end completed, the other did not", c.a, c.b)));
        }
        return Ok(1);
    }
    let both = explicit(&c.a) && explicit(&c.b);
    let plain = a.algorithm_name() == "PLAIN" || b.algorithm_name() == "PLAIN";
    if plain && !both {
        return Err(Fail::new("plain_without_consent", format!("lists {:?} / {:?} run unencrypted although not both contain a word for it", c.a, c.b))
            .with("a_explicit", explicit(&c.a))
            .with("b_explicit", explicit(&c.b)));
    }
    let p = pattern(100, 3);
    for dir in [true, false] {
        let r = if dir { probe(&mut a, &mut b, 0, &p) } else { probe(&mut b, &mut a, 0, &p) };
        let (_, got, wire) = r.map_err(|e| Fail::new("probe_failed", e))?;
        if got != p {
            return Err(Fail::new("payload_mismatch", "round trip changed the payload"));
        }
        if !both && contains_window(&wire, &p) {
            return Err(Fail::new("cleartext_on_wire", format!("lists {:?} / {:?}: payload readable on the wire", c.a, c.b)));
        }
    }
    Ok(if plain { 2 } else { 3 })
}

pub fn name_cases() -> Vec<NegCase> {
    let vocab = ["aes128", "AES256", "chacha20", "plain", "NONE", "Unencrypted", "chacha20-poly1305", "aes-256", "aes", "des", "", "plain "];
    let mut lists: Vec<Vec<String>> = vec![vec![]];
    for a in vocab {
        lists.push(vec![a.to_string()]);
        for b in vocab {
            lists.push(vec![a.to_string(), b.to_string()]);
        }
    }
    let others: Vec<Vec<String>> = vec![vec![], vec!["plain".into()], vec!["plain".into(), "aes128".into()], vec!["aes256".into()]];
    let mut v = vec![];
    for a in &lists {
        for b in others.iter().chain(std::iter::once(a)) {
            v.push(NegCase { a: a.clone(), b: b.clone() });
            v.push(NegCase { a: b.clone(), b: a.clone() });
        }
    }
    v
}

// ---------- (b3) sealed for a connection that was superseded on the same address ----------

#[derive(Serialize, Deserialize, Clone, Debug)]
pub struct SupersededCase {
    /// seconds of normal operation of the first connection
    pub age: i64,
    /// the process on the peer's address restarts (new node id) or the same process re-dials (same node id)
    pub same_node_id: bool,
    /// seconds after the second handshake at which the old session's datagram arrives
    pub late: i64,
}

/// A real router node and a scripted peer S on one address; S is replaced by S2 (fresh handshake from the same
/// address). What the OLD session seals afterwards must not reach the interface; the NEW session carries payload both ways.
pub fn run_superseded(c: &SupersededCase) -> CaseResult {
    use crate::{messages::MESSAGE_TYPE_DATA, payload::Packet, types::Range};
    let mut cfg = base_config(Mode::Router, Type::Tun, 0, &[0]);
    cfg.claims = vec!["10.200.0.0/16".to_string()];
    cfg.peer_timeout = 300;
    let mut net = Net::<Packet>::new();
    net.add_node(&cfg, false);
    let claim = |a: u8| {
        let mut data = [0u8; 16];
        data[..4].copy_from_slice(&[10, a, 0, 0]);
        vec![Range { base: crate::types::Address { data, len: 4 }, prefix_len: 16 }]
    };
    let mut s = Scripted::new(50, 50, 0, &[0], &claim(50), Some(300));
    if !s.connect(&mut net, 0) {
        return Err(Fail::new("harness", "scripted peer could not connect"));
    }
    let second = |net: &mut Net<Packet>, s: &mut Scripted| {
        net.tick();
        s.pump(net);
        s.tick(net, 0);
        s.pump(net);
        net.pop_frames(0);
    };
    for _ in 0..c.age {
        second(&mut net, &mut s);
    }
    let old_payload = ipv4_packet([10, 50, 0, 1], [10, 200, 0, 1], b"old-session-payload-0123456789");
    s.send(&mut net, 0, MESSAGE_TYPE_DATA, &old_payload);
    if net.pop_frames(0) != vec![old_payload.clone()] {
        return Err(Fail::new("harness", "payload of the first connection was not delivered"));
    }
    let mut s2 = Scripted::new(50, if c.same_node_id { 50 } else { 51 }, 0, &[0], &claim(51), Some(300));
    if !s2.connect(&mut net, 0) {
        return Err(Fail::new("reconnect_rejected", "a fresh handshake from the address of an existing peer was not accepted").with("same_node_id", c.same_node_id));
    }
    for _ in 0..c.late {
        second(&mut net, &mut s2);
    }
    // (1) sealed for the superseded connection: dropped
    let stale = ipv4_packet([10, 50, 0, 1], [10, 200, 0, 2], b"sealed-for-the-superseded-connection");
    s.send(&mut net, 0, MESSAGE_TYPE_DATA, &stale);
    let got = net.pop_frames(0);
    if !got.is_empty() {
        return Err(Fail::new("superseded_session_delivered", format!("a datagram sealed with the keys of the superseded connection reached the interface ({} frame(s))", got.len())).with("same_node_id", c.same_node_id));
    }
    // (2) the new connection delivers, byte-identical, both ways
    let fresh = ipv4_packet([10, 51, 0, 1], [10, 200, 0, 3], b"new-session-payload-abcdefghij");
    s2.send(&mut net, 0, MESSAGE_TYPE_DATA, &fresh);
    let got = net.pop_frames(0);
    if got != vec![fresh.clone()] {
        return Err(Fail::new("new_session_lost", format!("payload sealed by the new connection: {} frame(s) delivered", got.len())).with("same_node_id", c.same_node_id).with("direction", "to_node"));
    }
    let back = ipv4_packet([10, 200, 0, 1], [10, 51, 0, 9], b"reply-over-the-new-session-klmnop");
    net.queue.clear();
    s2.received.clear();
    net.put_frame(0, back.clone()).map_err(|e| Fail::new("send_error", format!("{}", e)))?;
    for w in net.queue.iter() {
        if contains_window(&w.data, &back[20..]) {
            return Err(Fail::new("cleartext_on_wire", "payload readable on the wire"));
        }
    }
    s2.pump(&mut net);
    if !s2.received.iter().any(|(t, d)| *t == MESSAGE_TYPE_DATA && d == &back) {
        return Err(Fail::new("new_session_lost", "what the node seals for the re-connected peer does not open with the new connection's keys").with("same_node_id", c.same_node_id).with("direction", "from_node"));
    }
    Ok(1)
}

// ---------- (c) meshes ----------

#[derive(Serialize, Deserialize, Clone, Debug)]
pub struct MeshCase {
    /// "router" | "switch"
    pub mode: String,
    /// index of the wire datagram (of the selected list) that is mutated
    pub pick: usize,
}

fn mesh_run<P: Protocol>(mode: &str) -> (Net<P>, Vec<Vec<u8>>, Vec<Vec<u8>>) {
    let mut cfgs = vec![];
    for i in 0..3 {
        let mut c = if mode == "router" { base_config(Mode::Router, Type::Tun, 0, &[0]) } else { base_config(Mode::Switch, Type::Tap, 0, &[0]) };
        if mode == "router" {
            c.claims = vec![format!("10.7.{}.0/24", i), format!("fd00:77:{}::/48", i)];
        }
        cfgs.push(c);
    }
    let mut net = Net::<P>::new();
    net.capture = Some(vec![]);
    for c in &cfgs {
        net.add_node(c, false);
    }
    let a = net.addrs.clone();
    net.connect(0, a[1]);
    net.connect(0, a[2]);
    net.deliver_all(512);
    net.run(3);
    // payload in every direction
    let mut clear: Vec<Vec<u8>> = vec![];
    let mut secrets: Vec<Vec<u8>> = vec![];
    for i in 0..3usize {
        for j in 0..3usize {
            if i == j {
                continue;
            }
            let body = pattern(64, (i * 3 + j) as u8);
            let f = if mode == "router" {
                ipv4_packet([10, 7, i as u8, 1], [10, 7, j as u8, 1], &body)
            } else {
                eth_frame([2, 0, 0, 0, 0, j as u8 + 1], [2, 0, 0, 0, 0, i as u8 + 1], None, &body)
            };
            secrets.push(body);
            clear.push(f.clone());
            net.put_frame(i, f).ok();
            net.deliver_all(512);
        }
    }
    net.run(2);
    for i in 0..3 {
        net.pop_frames(i);
    }
    if mode == "router" {
        // encoded claims as they travel inside node information
        for i in 0..3u8 {
            let mut c6 = vec![16u8, 0xfd, 0x00, 0x00, 0x77, 0x00, i, 0, 0, 0, 0, 0, 0, 0, 0, 0, 0, 48];
            c6.truncate(18);
            secrets.push(c6);
        }
    }
    (net, clear, secrets)
}

fn run_mesh_generic<P: Protocol>(c: &MeshCase, tier: Tier) -> CaseResult {
    let (mut net, _clear, secrets) = mesh_run::<P>(&c.mode);
    let cap = net.capture.clone().unwrap();
    // confidentiality of the whole capture
    for w in &cap {
        for s in &secrets {
            if contains_window(&w.data, s) {
                return Err(Fail::new("cleartext_on_wire", format!("a {}-byte datagram {} -> {} contains an 8-byte window of a payload or claim", w.data.len(), w.from, w.to)));
            }
        }
    }
    let sealed: Vec<&Wire> = cap.iter().filter(|w| w.data.first() != Some(&0xff) && !w.data.is_empty()).collect();
    if sealed.is_empty() {
        return Err(Fail::new("harness", "no sealed datagram captured"));
    }
    // picks are spread evenly over the capture (handshake follow-ups, node information, data, both directions)
    let w = sealed[(c.pick * 7 + c.pick * sealed.len() / 48) % sealed.len()].clone();
    let snaps: Vec<String> = (0..3).map(|i| net.snapshot(i)).collect();
    let mut n = 0u64;
    let mut shoot = |net: &mut Net<P>, to: usize, from: std::net::SocketAddr, d: Vec<u8>, what: &str| -> Result<(), Fail> {
        let r = util::catch(|| net.inject(to, from, d));
        if let Err(p) = r {
            return Err(Fail::from_panic(&p).with("alteration", what.to_string()));
        }
        let sent = net.queue.len();
        net.queue.clear();
        for i in 0..3 {
            if !net.pop_frames(i).is_empty() {
                return Err(Fail::new("altered_delivered", format!("{}: node {} wrote to its interface", what, i)).with("alteration", what.to_string()));
            }
        }
        if sent > 0 {
            return Err(Fail::new("altered_answered", format!("{}: {} datagram(s) sent in response", what, sent)).with("alteration", what.to_string()));
        }
        if net.snapshot(to) != snaps[to] {
            return Err(Fail::new("state_changed", format!("{}: receiving node's state changed", what)).with("alteration", what.to_string()));
        }
        Ok(())
    };
    let to = net.node_index(&w.to).unwrap();
    let from_idx = net.node_index(&w.from).unwrap();
    // bit flips / truncations on the original connection
    for bit in 0..w.data.len() * 8 {
        if tier == Tier::Quick && bit >= 64 && bit % 8 != (bit / 8) % 8 {
            continue;
        }
        let mut d = w.data.clone();
        d[bit / 8] ^= 1 << (bit % 8);
        let what = if bit < 8 && bit % 8 >= 2 { "flip_keyid_high_bits" } else if bit < 8 { "flip_keyid_low_bits" } else { "flip" };
        shoot(&mut net, to, w.from, d, what)?;
        n += 1;
    }
    for cut in 0..w.data.len() {
        shoot(&mut net, to, w.from, w.data[..cut].to_vec(), "truncation")?;
        n += 1;
    }
    // reflection and every other ordered connection (verbatim datagram, wrong connection)
    for x in 0..3 {
        for y in 0..3 {
            if x == y || (x == to && y == from_idx) {
                continue;
            }
            let what = if x == from_idx && y == to { "reflection" } else { "cross_connection" };
            let claimed = net.addrs[y];
            shoot(&mut net, x, claimed, w.data.clone(), what)?;
            n += 1;
        }
    }
    // unknown source
    shoot(&mut net, to, addr_of(999), w.data.clone(), "unknown_source")?;
    Ok(n)
}

pub fn run_mesh(c: &MeshCase, tier: Tier) -> CaseResult {
    if c.mode == "router" {
        run_mesh_generic::<Packet>(c, tier)
    } else {
        run_mesh_generic::<Frame>(c, tier)
    }
}

// ---------- (d) not-yet-established senders ----------

#[derive(Serialize, Deserialize, Clone, Debug)]
pub struct PendingCase {
    /// receiver state as in C08: pending_initiator | pending_responder | unknown_sender
    pub state: String,
    /// message type byte put in front of the cleartext body
    pub msg_type: u8,
    /// "frame" | "node_info" | "empty" | "sealed_other"
    pub body: String,
}

pub fn run_pending(c: &PendingCase) -> CaseResult {
    use crate::messages::NodeInfo;
    let mut net = super::c08::build_state(&c.state);
    let before = net.snapshot(0);
    let frame = eth_frame([2, 0, 0, 0, 0, 9], [2, 0, 0, 0, 0, 8], None, &pattern(40, 1));
    let mut data = vec![c.msg_type];
    match c.body.as_str() {
        "frame" => data.extend_from_slice(&frame),
        "node_info" => {
            let info = NodeInfo {
                node_id: [7; 16],
                peers: smallvec::smallvec![],
                claims: smallvec::smallvec![crate::types::Range { base: crate::types::Address { data: [10, 0, 0, 0, 0, 0, 0, 0, 0, 0, 0, 0, 0, 0, 0, 0], len: 4 }, prefix_len: 8 }],
                peer_timeout: Some(300),
                addrs: smallvec::smallvec![],
            };
            let mut buf = MsgBuffer::new(SPACE);
            info.encode(&mut buf);
            data.extend_from_slice(buf.message());
        }
        "empty" => {}
        _ => {
            // a sealed datagram of another connection
            let g = super::c08::genuine(false);
            data = g.iter().find(|x| x.0.starts_with("sealed")).map(|x| x.1.clone()).unwrap_or_default();
            data[0] = c.msg_type & 3;
        }
    }
    let from = net.addrs[1];
    let r = util::catch(|| net.inject(0, from, data));
    if let Err(p) = r {
        return Err(Fail::from_panic(&p).with("state", c.state.clone()));
    }
    if !net.pop_frames(0).is_empty() {
        return Err(Fail::new("unsealed_delivered", format!("datagram of type {} from a not-yet-established sender was written to the interface", c.msg_type)).with("state", c.state.clone()));
    }
    net.queue.clear();
    if net.snapshot(0) != before {
        return Err(Fail::new("state_changed", format!("datagram of type {} from a not-yet-established sender changed peers/routes", c.msg_type)).with("state", c.state.clone()));
    }
    Ok(1)
}

pub fn run(ctx: &Ctx) {
    // the thorough bounds of this check cost seconds, so both tiers use them (the evidence still records the tier asked for)
    let tier = if ctx.tier == Tier::Quick { Tier::Thorough } else { ctx.tier };
    // delivery, byte-identical, when ONE interface read is sealed for many peers from one buffer (13 / 22 nodes; C10's family)
    let large: Vec<super::c10::LargeCase> = tier.pick(vec![13usize], vec![12, 13, 22]).into_iter().map(|n| super::c10::LargeCase { n, mode: "switch".into(), plain: false }).collect();
    sweep_list(ctx, "large_mesh_delivery", &large, SweepOpts { chunk: 1, ..Default::default() }, super::c10::run_large);
    let mut pend = vec![];
    for state in ["pending_initiator", "pending_responder", "unknown_sender"] {
        for msg_type in [0u8, 1, 2, 3, 0x10, 0xfe] {
            for body in ["frame", "node_info", "empty", "sealed_other"] {
                pend.push(PendingCase { state: state.into(), msg_type, body: body.into() });
            }
        }
    }
    sweep_list(ctx, "unestablished_sender", &pend, SweepOpts { chunk: 1, ..Default::default() }, run_pending);
    let mut cores = vec![];
    let mut lens: Vec<usize> = (0..=300).collect();
    lens.extend([511, 512, 1000, 1400, 1500, 8999, 9000]);
    let mut_max = tier.pick(48, 300);
    for cipher in 1..=3u8 {
        for &len in &lens {
            for offset in [8usize, 16, 100] {
                cores.push(CoreCase { cipher, len, offset, mutate: len <= mut_max && offset == 16 });
            }
        }
    }
    sweep_list(ctx, "core_pairs", &cores, SweepOpts { chunk: 4, trivial_classes: vec![1], ..Default::default() }, run_core);
    let lists: Vec<Vec<&str>> = vec![
        vec!["aes128"],
        vec!["aes256"],
        vec!["chacha20"],
        vec!["plain"],
        vec!["plain", "aes128"],
        vec!["plain", "aes256", "chacha20"],
        vec!["aes128", "aes256", "chacha20"],
        vec!["chacha20", "aes128"],
    ];
    let mut negs = vec![];
    for a in &lists {
        for b in &lists {
            negs.push(NegCase { a: a.iter().map(|s| s.to_string()).collect(), b: b.iter().map(|s| s.to_string()).collect() });
        }
    }
    sweep_list(ctx, "negotiated", &negs, SweepOpts { chunk: 2, trivial_classes: vec![0], ..Default::default() }, run_neg);
    let mut sup = vec![];
    for age in [0i64, 3, 61, 130] {
        for same_node_id in [false, true] {
            for late in [0i64, 1, 3] {
                sup.push(SupersededCase { age, same_node_id, late });
            }
        }
    }
    sweep_list(ctx, "superseded_connection", &sup, SweepOpts { chunk: 1, ..Default::default() }, run_superseded);
    sweep_list(ctx, "configured_names", &name_cases(), SweepOpts { chunk: 8, trivial_classes: vec![0], ..Default::default() }, run_names);
    let mut meshes = vec![];
    for mode in ["router", "switch"] {
        for pick in 0..tier.pick(12, 48) {
            meshes.push(MeshCase { mode: mode.to_string(), pick });
        }
    }
    sweep_list(ctx, "mesh_injection", &meshes, SweepOpts { chunk: 1, ..Default::default() }, |c| run_mesh(c, tier));
    ctx.assume("AEAD confidentiality/integrity (ring) is trusted; 'cleartext never appears' is decided as 'no 8-byte window of any explored payload or claim appears in any explored wire capture'");
    ctx.assume("mesh_injection evaluations are cases of one wire datagram each; every case performs several hundred injections (all bit flips / truncations / connections)");
}

pub fn replay(family: &str, case: &Value) -> Option<CaseResult> {
    match family {
        "core_pairs" => replay_with::<CoreCase>(case, run_core),
        "negotiated" => replay_with::<NegCase>(case, run_neg),
        "configured_names" => replay_with::<NegCase>(case, run_names),
        "superseded_connection" => replay_with::<SupersededCase>(case, run_superseded),
        "mesh_injection" => replay_with::<MeshCase>(case, |c| run_mesh(c, Tier::Thorough)),
        "large_mesh_delivery" => replay_with::<super::c10::LargeCase>(case, super::c10::run_large),
        "unestablished_sender" => replay_with::<PendingCase>(case, run_pending),
        _ => None,
    }
}
