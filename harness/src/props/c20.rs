//! C20 Configuration sources combine as documented.
//! E3: per-option / pairwise / 3-wise presence combinations through the REAL parsers (serde_yaml -> ConfigFile,
//! argv -> structopt Args) and merge functions, against a reference overlay with the documented defaults;
//! round trip through the file form; netmask for every prefix length and malformed strings.
use super::{replay_with, Prop};
use crate::{
    config::{Args, Config, ConfigFile},
    main_extract::parse_ip_netmask,
    mc::{sweep::*, CaseResult, Ctx, Fail, Tier},
};
use serde_json::Value;
use std::collections::BTreeMap;
use structopt::StructOpt;

pub fn prop() -> Prop {
    Prop {
        id: "C20",
        title: "Configuration sources combine as documented",
        level: "exploration",
        rule: "complete enumeration of presence combinations {absent, file, command line, both} with distinct values per option \
               (35 options, 2 value variants), for all pairs of options (16 combinations each) and, in thorough, all triples (64 each), \
               each through YAML text -> serde_yaml -> ConfigFile -> merge_file and argv -> structopt -> merge_args on Config::default(), \
               compared field by field with a reference overlay built from the documented defaults; every effective configuration \
               is also turned into file form, serialised, re-parsed and merged into defaults; netmask: every prefix 0..=40 x address \
               forms + malformed strings. Value variants: two different values, and the same value in both sources; hook scripts with colons. non-trivial = at least one option present (merge cases) / parser accepted (netmask)",
        run,
        replay,
    }
}

#[derive(Clone, Copy, PartialEq, Debug)]
enum Kind {
    Scalar,   // cli > file > default
    OptStr,   // same, default None
    List,     // file then cli, concatenated
    FlagOn,   // cli flag sets true; file bool
    FlagOff,  // cli flag (--no-x) sets false; file bool; default true
    CliFlag,  // cli only
    Replace,  // list that is replaced, not accumulated (algorithms)
    HookMap,  // per-event hooks: union
}

struct Opt {
    key: &'static str,
    file_path: Option<&'static str>, // dotted path in the YAML file
    cli: &'static str,
    kind: Kind,
    default: &'static str, // rendered like `render` renders the field
    /// (file value, cli value) per variant
    values: [(&'static str, &'static str); 2],
}

const OPTS: &[Opt] = &[
    Opt { key: "device_type", file_path: Some("device.type"), cli: "--type", kind: Kind::Scalar, default: "tun", values: [("tap", "tun"), ("tun", "tap")] },
    Opt { key: "device_name", file_path: Some("device.name"), cli: "--device", kind: Kind::Scalar, default: "vpncloud%d", values: [("fdev", "cdev"), ("vpn7", "vpncloud%d")] },
    Opt { key: "device_path", file_path: Some("device.path"), cli: "--device-path", kind: Kind::OptStr, default: "", values: [("/f/tun", "/c/tun"), ("/dev/a", "/dev/b")] },
    Opt { key: "fix_rp_filter", file_path: Some("device.fix-rp-filter"), cli: "--fix-rp-filter", kind: Kind::FlagOn, default: "false", values: [("true", ""), ("false", "")] },
    Opt { key: "ip", file_path: Some("ip"), cli: "--ip", kind: Kind::OptStr, default: "", values: [("10.0.1.1/16", "10.0.2.2/24"), ("1.1.1.1", "2.2.2.2/0")] },
    Opt { key: "advertise_addresses", file_path: Some("advertise-addresses"), cli: "--advertise_addresses", kind: Kind::List, default: "", values: [("192.168.0.1", "192.168.9.9"), ("f.example", "c.example")] },
    Opt { key: "ifup", file_path: Some("ifup"), cli: "--ifup", kind: Kind::OptStr, default: "", values: [("fup", "cup"), ("ifconfig a", "ifconfig b")] },
    Opt { key: "ifdown", file_path: Some("ifdown"), cli: "--ifdown", kind: Kind::OptStr, default: "", values: [("fdown", "cdown"), ("true", "false")] },
    Opt { key: "listen", file_path: Some("listen"), cli: "--listen", kind: Kind::Scalar, default: "3210", values: [("3211", "3212"), ("[::]:4000", "3210")] },
    Opt { key: "peers", file_path: Some("peers"), cli: "--peer", kind: Kind::List, default: "", values: [("fpeer:3210", "cpeer:3210"), ("a.b:1", "c.d:2")] },
    Opt { key: "peer_timeout", file_path: Some("peer-timeout"), cli: "--peer-timeout", kind: Kind::Scalar, default: "300", values: [("600", "1801"), ("1", "300")] },
    Opt { key: "keepalive", file_path: Some("keepalive"), cli: "--keepalive", kind: Kind::OptStr, default: "", values: [("840", "850"), ("0", "1")] },
    Opt { key: "beacon_store", file_path: Some("beacon.store"), cli: "--beacon-store", kind: Kind::OptStr, default: "", values: [("/f/out", "/c/out"), ("|fcmd", "|ccmd")] },
    Opt { key: "beacon_load", file_path: Some("beacon.load"), cli: "--beacon-load", kind: Kind::OptStr, default: "", values: [("/f/in", "/c/in"), ("|fcmd2", "|ccmd2")] },
    Opt { key: "beacon_interval", file_path: Some("beacon.interval"), cli: "--beacon-interval", kind: Kind::Scalar, default: "3600", values: [("7200", "60"), ("1", "3600")] },
    Opt { key: "beacon_password", file_path: Some("beacon.password"), cli: "--beacon-password", kind: Kind::OptStr, default: "", values: [("fbpw", "cbpw"), ("x", "y")] },
    Opt { key: "mode", file_path: Some("mode"), cli: "--mode", kind: Kind::Scalar, default: "normal", values: [("switch", "hub"), ("router", "normal")] },
    Opt { key: "switch_timeout", file_path: Some("switch-timeout"), cli: "--switch-timeout", kind: Kind::Scalar, default: "300", values: [("301", "302"), ("0", "300")] },
    Opt { key: "claims", file_path: Some("claims"), cli: "--claim", kind: Kind::List, default: "", values: [("10.0.1.0/24", "10.0.2.0/24"), ("1.2.3.4/32", "::/0")] },
    Opt { key: "auto_claim", file_path: Some("auto-claim"), cli: "--no-auto-claim", kind: Kind::FlagOff, default: "true", values: [("false", ""), ("true", "")] },
    Opt { key: "port_forwarding", file_path: Some("port-forwarding"), cli: "--no-port-forwarding", kind: Kind::FlagOff, default: "true", values: [("false", ""), ("true", "")] },
    Opt { key: "daemonize", file_path: None, cli: "--daemon", kind: Kind::CliFlag, default: "false", values: [("", ""), ("", "")] },
    Opt { key: "pid_file", file_path: Some("pid-file"), cli: "--pid-file", kind: Kind::OptStr, default: "", values: [("/f.pid", "/c.pid"), ("a", "b")] },
    Opt { key: "stats_file", file_path: Some("stats-file"), cli: "--stats-file", kind: Kind::OptStr, default: "", values: [("/f.stats", "/c.stats"), ("a", "b")] },
    Opt { key: "statsd_server", file_path: Some("statsd.server"), cli: "--statsd-server", kind: Kind::OptStr, default: "", values: [("f.example:1", "c.example:2"), ("a:1", "b:2")] },
    Opt { key: "statsd_prefix", file_path: Some("statsd.prefix"), cli: "--statsd-prefix", kind: Kind::OptStr, default: "", values: [("fprefix", "cprefix"), ("a", "b")] },
    Opt { key: "user", file_path: Some("user"), cli: "--user", kind: Kind::OptStr, default: "", values: [("fuser", "cuser"), ("nobody", "root")] },
    Opt { key: "group", file_path: Some("group"), cli: "--group", kind: Kind::OptStr, default: "", values: [("fgroup", "cgroup"), ("nogroup", "root")] },
    Opt { key: "password", file_path: Some("crypto.password"), cli: "--password", kind: Kind::OptStr, default: "", values: [("fpw", "cpw"), ("a", "b")] },
    Opt { key: "private_key", file_path: Some("crypto.private-key"), cli: "--private-key", kind: Kind::OptStr, default: "", values: [("fpriv", "cpriv"), ("a", "b")] },
    Opt { key: "public_key", file_path: Some("crypto.public-key"), cli: "--public-key", kind: Kind::OptStr, default: "", values: [("fpub", "cpub"), ("a", "b")] },
    Opt { key: "trusted_keys", file_path: Some("crypto.trusted-keys"), cli: "--trusted-key", kind: Kind::List, default: "", values: [("ftrust", "ctrust"), ("a", "b")] },
    Opt { key: "algorithms", file_path: Some("crypto.algorithms"), cli: "--algorithm", kind: Kind::Replace, default: "", values: [("aes128", "chacha20"), ("plain", "aes256")] },
    Opt { key: "hook", file_path: Some("hook"), cli: "--hook", kind: Kind::OptStr, default: "", values: [("fhook", "chook"), ("a", "b")] },
    Opt { key: "hooks", file_path: Some("hooks"), cli: "--hook", kind: Kind::HookMap, default: "", values: [("peer_connected=fscript", "peer_connected:cscript"), ("vpn_started=fs -x a:b", "vpn_shutdown:curl -s http://127.0.0.1:8080/down")] },
];

/// (file value, command-line value) of value variant 0, 1 (the table) or 2 (the SAME value in both sources: a list then holds
/// an entry twice, a scalar is simply confirmed).
fn vals(o: &Opt, variant: usize) -> (String, String) {
    if variant < 2 {
        return (o.values[variant].0.to_string(), o.values[variant].1.to_string());
    }
    let fv = o.values[0].0.to_string();
    let cv = if o.kind == Kind::HookMap { fv.replacen('=', ":", 1) } else { fv.clone() };
    (fv, cv)
}

/// presence: bit 0 = in file, bit 1 = on command line
#[derive(Serialize, Deserialize, Clone, Debug)]
pub struct MergeCase {
    /// (option index, presence 0..=3, value variant 0/1/2)
    pub opts: Vec<(usize, u8, usize)>,
}

fn yaml_text(case: &MergeCase) -> String {
    // nested map: top-level key -> either scalar line(s) or sub-map
    let mut top: BTreeMap<String, Vec<String>> = BTreeMap::new();
    for &(i, presence, variant) in &case.opts {
        let o = &OPTS[i];
        if presence & 1 == 0 {
            continue;
        }
        let path = match o.file_path {
            Some(p) => p,
            None => continue,
        };
        let fv_owned = vals(o, variant).0;
        let fv = fv_owned.as_str();
        let (section, leaf) = match path.split_once('.') {
            Some((s, l)) => (Some(s), l),
            None => (None, path),
        };
        let rendered = match o.kind {
            Kind::List | Kind::Replace => format!("{}:\n@  - \"{}\"", leaf, fv),
            Kind::HookMap => {
                let (ev, sc) = fv.split_once('=').unwrap();
                format!("{}:\n@  {}: \"{}\"", leaf, ev, sc)
            }
            Kind::FlagOn | Kind::FlagOff => format!("{}: {}", leaf, fv),
            _ => {
                if fv.chars().all(|c| c.is_ascii_digit()) || ["tun", "tap", "normal", "switch", "hub", "router"].contains(&fv) {
                    format!("{}: {}", leaf, fv)
                } else {
                    format!("{}: \"{}\"", leaf, fv)
                }
            }
        };
        match section {
            Some(s) => top.entry(s.to_string()).or_default().push(rendered.replace('@', "  ")),
            None => top.entry(String::new()).or_default().push(rendered.replace('@', "")),
        }
    }
    let mut text = String::new();
    for (section, lines) in top {
        if section.is_empty() {
            for l in lines {
                text.push_str(&l);
                text.push('\n');
            }
        } else {
            text.push_str(&format!("{}:\n", section));
            for l in lines {
                for (k, part) in l.split('\n').enumerate() {
                    let _ = k;
                    text.push_str(&format!("  {}\n", part));
                }
            }
        }
    }
    if text.is_empty() {
        text.push_str("{}\n");
    }
    text
}

fn argv(case: &MergeCase) -> Vec<String> {
    let mut v = vec!["vpncloud".to_string()];
    for &(i, presence, variant) in &case.opts {
        let o = &OPTS[i];
        if presence & 2 == 0 {
            continue;
        }
        match o.kind {
            Kind::FlagOn | Kind::FlagOff | Kind::CliFlag => v.push(o.cli.to_string()),
            _ => {
                v.push(o.cli.to_string());
                v.push(vals(o, variant).1.to_string());
            }
        }
    }
    v
}

/// Field-by-field rendering of an effective configuration (the observation compared with the reference).
fn render(c: &Config) -> BTreeMap<&'static str, String> {
    let o = |v: &Option<String>| v.clone().unwrap_or_default();
    let mut m = BTreeMap::new();
    m.insert("device_type", format!("{}", c.device_type));
    m.insert("device_name", c.device_name.clone());
    m.insert("device_path", o(&c.device_path));
    m.insert("fix_rp_filter", c.fix_rp_filter.to_string());
    m.insert("ip", o(&c.ip));
    m.insert("advertise_addresses", c.advertise_addresses.join(","));
    m.insert("ifup", o(&c.ifup));
    m.insert("ifdown", o(&c.ifdown));
    m.insert("listen", c.listen.clone());
    m.insert("peers", c.peers.join(","));
    m.insert("peer_timeout", c.peer_timeout.to_string());
    m.insert("keepalive", c.keepalive.map(|k| k.to_string()).unwrap_or_default());
    m.insert("beacon_store", o(&c.beacon_store));
    m.insert("beacon_load", o(&c.beacon_load));
    m.insert("beacon_interval", c.beacon_interval.to_string());
    m.insert("beacon_password", o(&c.beacon_password));
    m.insert("mode", format!("{}", c.mode));
    m.insert("switch_timeout", c.switch_timeout.to_string());
    m.insert("claims", c.claims.join(","));
    m.insert("auto_claim", c.auto_claim.to_string());
    m.insert("port_forwarding", c.port_forwarding.to_string());
    m.insert("daemonize", c.daemonize.to_string());
    m.insert("pid_file", o(&c.pid_file));
    m.insert("stats_file", o(&c.stats_file));
    m.insert("statsd_server", o(&c.statsd_server));
    m.insert("statsd_prefix", o(&c.statsd_prefix));
    m.insert("user", o(&c.user));
    m.insert("group", o(&c.group));
    m.insert("password", o(&c.crypto.password));
    m.insert("private_key", o(&c.crypto.private_key));
    m.insert("public_key", o(&c.crypto.public_key));
    m.insert("trusted_keys", c.crypto.trusted_keys.join(","));
    m.insert("algorithms", c.crypto.algorithms.join(","));
    m.insert("hook", o(&c.hook));
    let mut hooks: Vec<String> = c.hooks.iter().map(|(k, v)| format!("{}={}", k, v)).collect();
    hooks.sort();
    m.insert("hooks", hooks.join(","));
    m
}

/// Reference overlay from the documented defaults (vpncloud.adoc), independent of Config::default().
fn reference(case: &MergeCase) -> BTreeMap<&'static str, String> {
    let mut m: BTreeMap<&'static str, String> = BTreeMap::new();
    for o in OPTS {
        m.insert(o.key, o.default.to_string());
    }
    for &(i, presence, variant) in &case.opts {
        let o = &OPTS[i];
        let (fv, cv) = vals(o, variant);
        let (fv, cv) = (fv.as_str(), cv.as_str());
        let in_file = presence & 1 != 0 && o.file_path.is_some();
        let on_cli = presence & 2 != 0;
        let val = match o.kind {
            Kind::Scalar | Kind::OptStr => {
                if on_cli {
                    cv.to_string()
                } else if in_file {
                    fv.to_string()
                } else {
                    o.default.to_string()
                }
            }
            Kind::Replace => {
                if on_cli {
                    cv.to_string()
                } else if in_file {
                    fv.to_string()
                } else {
                    String::new()
                }
            }
            Kind::List => {
                let mut parts = vec![];
                if in_file {
                    parts.push(fv.to_string());
                }
                if on_cli {
                    parts.push(cv.to_string());
                }
                parts.join(",")
            }
            Kind::HookMap => {
                let mut map: BTreeMap<String, String> = BTreeMap::new();
                if in_file {
                    let (k, v) = fv.split_once('=').unwrap();
                    map.insert(k.into(), v.into());
                }
                if on_cli {
                    let (k, v) = cv.split_once(':').unwrap();
                    map.insert(k.into(), v.into()); // command line wins per event
                }
                map.iter().map(|(k, v)| format!("{}={}", k, v)).collect::<Vec<_>>().join(",")
            }
            Kind::FlagOn => {
                if on_cli {
                    "true".to_string()
                } else if in_file {
                    fv.to_string()
                } else {
                    "false".to_string()
                }
            }
            Kind::FlagOff => {
                if on_cli {
                    "false".to_string()
                } else if in_file {
                    fv.to_string()
                } else {
                    "true".to_string()
                }
            }
            Kind::CliFlag => on_cli.to_string(),
        };
        m.insert(o.key, val);
    }
    m
}

/// Combinations the command-line parser itself refuses (documented structopt constraints).
fn cli_conflict(case: &MergeCase) -> bool {
    let on_cli = |key: &str| case.opts.iter().any(|&(i, p, _)| OPTS[i].key == key && p & 2 != 0);
    (on_cli("password") && on_cli("private_key")) || (on_cli("statsd_prefix") && !on_cli("statsd_server"))
}

pub fn run_merge(case: &MergeCase) -> CaseResult {
    let yaml = yaml_text(case);
    let args = argv(case);
    let file: ConfigFile = serde_yaml::from_str(&yaml)
        .map_err(|e| Fail::new("harness_yaml", format!("generated YAML rejected: {}\n{}", e, yaml)))?;
    let parsed = Args::from_iter_safe(args.iter());
    let parsed = match parsed {
        Ok(a) => a,
        Err(e) => {
            if cli_conflict(case) {
                return Ok(0);
            }
            return Err(Fail::new("cli_rejected", format!("argv {:?} rejected: {}", args, e.message)));
        }
    };
    if cli_conflict(case) {
        return Err(Fail::new("cli_conflict_accepted", format!("argv {:?} accepted although documented as conflicting", args)));
    }
    let mut cfg = Config::default();
    cfg.merge_file(file);
    cfg.merge_args(parsed);
    let got = render(&cfg);
    let want = reference(case);
    for (k, w) in &want {
        if got.get(k) != Some(w) {
            return Err(Fail::new("merge_mismatch", format!("option {}: got {:?}, documented overlay gives {:?}\nyaml:\n{}argv: {:?}", k, got.get(k), w, yaml, args))
                .with("option", *k));
        }
    }
    // round trip through the file form
    let file2 = cfg.clone().into_config_file();
    let text = serde_yaml::to_string(&file2).map_err(|e| Fail::new("file_form_unserialisable", format!("{}", e)))?;
    let file3: ConfigFile = serde_yaml::from_str(&text).map_err(|e| Fail::new("file_form_unparsable", format!("{}\n{}", e, text)))?;
    let mut cfg2 = Config::default();
    cfg2.merge_file(file3);
    let got2 = render(&cfg2);
    for (k, w) in &got {
        if *k == "daemonize" {
            continue; // the file format has no such setting
        }
        if got2.get(k) != Some(w) {
            return Err(Fail::new("roundtrip_mismatch", format!("option {}: {:?} became {:?} after into_config_file + merge", k, w, got2.get(k))).with("option", *k));
        }
    }
    let present = case.opts.iter().filter(|o| o.1 != 0).count() as u64;
    Ok(present)
}

#[derive(Serialize, Deserialize, Clone, Debug)]
pub struct MaskCase {
    pub text: String,
}

pub fn run_mask(c: &MaskCase) -> CaseResult {
    let res = parse_ip_netmask(&c.text);
    // reference
    let (ip_s, len_s) = match c.text.find('/') {
        Some(p) => (&c.text[..p], Some(&c.text[p + 1..])),
        None => (&c.text[..], None),
    };
    let ip_ok = ip_s.parse::<std::net::Ipv4Addr>().ok();
    let len: Option<u32> = match len_s {
        None => Some(24),
        Some(s) => s.parse::<u32>().ok().filter(|n| *n <= 32),
    };
    // strings like "+8" parse as integers in Rust; the statement only speaks about lengths 0-32, accept either verdict there
    let lenient = len_s.map(|s| s.starts_with('+')).unwrap_or(false);
    match (res, ip_ok, len) {
        (Ok((ip, mask)), Some(wip), Some(n)) => {
            let want: u32 = if n == 0 { 0 } else { u32::MAX << (32 - n) };
            if ip != wip || u32::from(mask) != want {
                return Err(Fail::new("wrong_netmask", format!("{:?} -> ({}, {}), expected mask {}", c.text, ip, mask, std::net::Ipv4Addr::from(want))).with("prefix", n as u64));
            }
            Ok(100 + n as u64)
        }
        (Err(_), _, _) if ip_ok.is_none() || len.is_none() => Ok(1),
        (Err(e), Some(_), Some(n)) => Err(Fail::new("valid_rejected", format!("{:?} rejected: {}", c.text, e)).with("prefix", n as u64)),
        (Ok(_), _, _) if lenient => Ok(2),
        (Ok((ip, mask)), _, _) => Err(Fail::new("invalid_accepted", format!("{:?} accepted as ({}, {})", c.text, ip, mask))),
        (Err(_), _, _) => Ok(1),
    }
}

fn merge_cases(tier: Tier) -> (Vec<MergeCase>, Vec<MergeCase>, Vec<MergeCase>) {
    let n = OPTS.len();
    let mut single = vec![];
    for i in 0..n {
        for p in 0..4u8 {
            for variant in 0..3 {
                single.push(MergeCase { opts: vec![(i, p, variant)] });
            }
        }
    }
    let mut pairs = vec![];
    for i in 0..n {
        for j in (i + 1)..n {
            for pi in 0..4u8 {
                for pj in 0..4u8 {
                    if pi == 0 && pj == 0 {
                        continue;
                    }
                    pairs.push(MergeCase { opts: vec![(i, pi, 0), (j, pj, (i + j) % 2)] });
                }
            }
        }
    }
    let mut triples = vec![];
    if tier == Tier::Thorough {
        for i in 0..n {
            for j in (i + 1)..n {
                for k in (j + 1)..n {
                    for p in 1..64u8 {
                        let (pi, pj, pk) = (p & 3, (p >> 2) & 3, (p >> 4) & 3);
                        if pi == 0 || pj == 0 || pk == 0 {
                            continue; // covered by pairs
                        }
                        triples.push(MergeCase { opts: vec![(i, pi, 0), (j, pj, 1), (k, pk, (i + k) % 2)] });
                    }
                }
            }
        }
    }
    (single, pairs, triples)
}

/// Everything in the file, everything on the command line, everything in both - for each of the three value variants.
fn all_option_cases() -> Vec<MergeCase> {
    let n = OPTS.len();
    let mut v = vec![];
    for p in 1..4u8 {
        for variant in 0..3 {
            let opts: Vec<_> = (0..n).filter(|i| !["private_key", "statsd_prefix"].contains(&OPTS[*i].key) || p & 2 == 0).map(|i| (i, p, variant)).collect();
            v.push(MergeCase { opts });
        }
    }
    v
}

fn mask_cases() -> Vec<MaskCase> {
    let mut v = vec![];
    let ips = ["10.0.1.1", "0.0.0.0", "255.255.255.255", "1.2.3.4"];
    for ip in ips {
        v.push(MaskCase { text: ip.to_string() });
        for n in 0..=40 {
            v.push(MaskCase { text: format!("{}/{}", ip, n) });
        }
        for suffix in ["/", "/-1", "/abc", "/ 8", "/8 ", "/256", "/300", "/99999999999", "/+8", "/08", "/0x8", "/8/8", "//8", "/3.5"] {
            v.push(MaskCase { text: format!("{}{}", ip, suffix) });
        }
    }
    for bad in ["", "/", "/24", "1.2.3", "1.2.3.4.5", "256.1.1.1/8", "a.b.c.d/8", "::1/64", "1.2.3.4 /8", " 1.2.3.4/8", "1.2.3.-4/8", "01.2.3.4/8", "1..2.3/8", "\u{663}.1.1.1/8"] {
        v.push(MaskCase { text: bad.to_string() });
    }
    v
}

pub fn run(ctx: &Ctx) {
    std::env::remove_var("PASSWORD");
    std::env::remove_var("PRIVATE_KEY");
    let (single, pairs, triples) = merge_cases(ctx.tier);
    sweep_list(ctx, "per_option", &single, SweepOpts { trivial_classes: vec![0], ..Default::default() }, run_merge);
    sweep_list(ctx, "pairwise", &pairs, SweepOpts { trivial_classes: vec![0], ..Default::default() }, run_merge);
    sweep_list(ctx, "all_options", &all_option_cases(), SweepOpts { trivial_classes: vec![0], ..Default::default() }, run_merge);
    if !triples.is_empty() {
        sweep_list(ctx, "triples", &triples, SweepOpts { trivial_classes: vec![0], ..Default::default() }, run_merge);
    }
    sweep_list(ctx, "netmask", &mask_cases(), SweepOpts { trivial_classes: vec![1], ..Default::default() }, run_mask);
    ctx.assume("documented defaults (vpncloud.adoc) are hard-coded in the harness; environment variables PASSWORD/PRIVATE_KEY are unset");
    ctx.assume("two command-line combinations are refused by the parser as documented (password + private key, statsd prefix without server) and count as trivial");
}

pub fn replay(family: &str, case: &Value) -> Option<CaseResult> {
    std::env::remove_var("PASSWORD");
    std::env::remove_var("PRIVATE_KEY");
    match family {
        "netmask" => replay_with::<MaskCase>(case, run_mask),
        _ => replay_with::<MergeCase>(case, run_merge),
    }
}
