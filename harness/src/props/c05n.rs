//! C05, node level (E2): deviation-bounded exploration of REAL nodes. Default environment: FIFO delivery to quiescence
//! after every tick; deviations at the first decision points (datagram hand-overs): drop, duplicate, hold for k ticks,
//! partition the pair for 125 s. All placements of <= b deviations are enumerated (b = 0, 1, 2); every execution then gets
//! a reliable phase of peer timeout + retry horizon and must end mutually connected with payload flowing both ways.
use super::{common::*, netsim::*, replay_with};
use crate::{
    device::Type,
    mc::{sweep::*, util, CaseResult, Ctx, Fail, Tier},
    payload::Packet,
    types::Mode,
};
use serde_json::Value;

#[derive(Serialize, Deserialize, Clone, Debug, PartialEq)]
pub enum Dev {
    Drop,
    Dup,
    Hold(i64),
    Partition,
    /// delivered now and once more k ticks later (a late duplicate)
    DupHold(i64),
    /// this datagram and everything else travelling the same way (same sender, same receiver) is lost for k seconds
    OneWay(i64),
    /// (decision point ignored) every datagram handed over in second t of the run is delayed by k seconds
    HoldAt(i64, i64),
}

#[derive(Serialize, Deserialize, Clone, Debug)]
pub struct DevCase {
    /// "a" = node 0 dials node 1, "b" = node 1 dials node 0, "both", "three" = 3 nodes, node 0 dials both
    pub dial: String,
    pub reverse_salts: bool,
    /// (decision point, deviation)
    pub devs: Vec<(usize, Dev)>,
    /// optional outage of the whole network: (start second, length in seconds)
    #[serde(default)]
    pub outage: Option<(i64, i64)>,
    /// "" = the dialling side keeps the address as a configured peer (re-dialled for ever); "unconfigured" = it dials once, as
    /// for an address learned from a peer list (afterwards only timeouts make anybody dial again); "unconfigured_t60" = same, and
    /// the dialled node is configured with a peer timeout of 60 s (shorter than a handshake's retry budget of 120 s)
    #[serde(default)]
    pub variant: String,
}

pub const PREFIX: usize = 14;
/// measured over a run of the check: housekeeping rounds executed and datagram hand-over decisions taken
pub static TICKS: std::sync::atomic::AtomicU64 = std::sync::atomic::AtomicU64::new(0);
pub static HANDOVERS: std::sync::atomic::AtomicU64 = std::sync::atomic::AtomicU64::new(0);
pub fn menu() -> Vec<Dev> {
    vec![Dev::Drop, Dev::Dup, Dev::Hold(1), Dev::Hold(2), Dev::Hold(5), Dev::Hold(61), Dev::Hold(121), Dev::Hold(130), Dev::Partition]
}

pub fn run_dev(c: &DevCase) -> CaseResult {
    let n = if c.dial == "three" { 3 } else { 2 };
    let mut net = Net::<Packet>::new();
    net.reverse_salts = c.reverse_salts;
    for i in 0..n {
        let mut cfg = base_config(Mode::Router, Type::Tun, 0, &[0]);
        cfg.claims = vec![format!("10.{}.0.0/16", i)];
        if c.variant == "unconfigured_t60" && i == 1 {
            cfg.peer_timeout = 60;
        }
        net.add_node(&cfg, false);
    }
    let a = net.addrs.clone();
    match c.dial.as_str() {
        "a" if c.variant.starts_with("unconfigured") => net.connect(0, a[1]),
        "a" => net.configure_peer(0, a[1]),
        "b" => net.configure_peer(1, a[0]),
        "both" => {
            net.configure_peer(0, a[1]);
            net.configure_peer(1, a[0]);
        }
        _ => {
            net.configure_peer(0, a[1]);
            net.configure_peer(0, a[2]);
        }
    }
    let mut point = 0usize;
    let mut held: Vec<(i64, Wire)> = vec![];
    let mut partition_until = 0i64;
    let mut one_way: Vec<(std::net::SocketAddr, std::net::SocketAddr, i64)> = vec![];
    let mut last_effect = net.now;
    let hold_at: Vec<(i64, i64)> = c.devs.iter().filter_map(|d| if let Dev::HoldAt(t, k) = d.1 { Some((t, k)) } else { None }).collect();
    let mut pump = |net: &mut Net<Packet>, point: &mut usize, held: &mut Vec<(i64, Wire)>, partition_until: &mut i64, last_effect: &mut i64| -> Result<(), Fail> {
        let now = net.now;
        if let Some((start, len)) = c.outage {
            let rel = now - START_TIME;
            if rel >= start && rel < start + len {
                net.queue.clear(); // total outage: nothing gets through, held datagrams are lost as well
                held.retain(|h| h.0 > START_TIME + start + len);
                *last_effect = START_TIME + start + len;
                return Ok(());
            }
        }
        let mut i = 0;
        while i < held.len() {
            if held[i].0 <= now {
                let (_, w) = held.remove(i);
                net.queue.push_back(w);
            } else {
                i += 1;
            }
        }
        let mut n_del = 0;
        while let Some(w) = net.queue.pop_front() {
            let p = *point;
            *point += 1;
            HANDOVERS.fetch_add(1, std::sync::atomic::Ordering::Relaxed);
            if now < *partition_until {
                continue;
            }
            if one_way.iter().any(|(f, t, until)| *f == w.from && *t == w.to && now < *until) {
                continue;
            }
            if let Some((_, k)) = hold_at.iter().find(|(t, _)| START_TIME + *t == now) {
                held.push((now + k, w));
                *last_effect = (*last_effect).max(now + k);
                continue;
            }
            let dev = if p < PREFIX { c.devs.iter().find(|d| d.0 == p).map(|d| d.1.clone()) } else { None };
            match dev {
                Some(Dev::Drop) => {
                    *last_effect = now;
                }
                Some(Dev::Dup) => {
                    net.hand_over(w.clone());
                    net.hand_over(w);
                    *last_effect = now;
                }
                Some(Dev::Hold(k)) => {
                    held.push((now + k, w));
                    *last_effect = now + k;
                }
                Some(Dev::Partition) => {
                    *partition_until = now + 125;
                    *last_effect = now + 125;
                }
                Some(Dev::DupHold(k)) => {
                    held.push((now + k, w.clone()));
                    net.hand_over(w);
                    *last_effect = now + k;
                }
                Some(Dev::OneWay(k)) => {
                    one_way.push((w.from, w.to, now + k));
                    *last_effect = (*last_effect).max(now + k);
                }
                Some(Dev::HoldAt(_, _)) => {
                    net.hand_over(w);
                }
                None => {
                    net.hand_over(w);
                }
            }
            n_del += 1;
            if n_del > 512 {
                break; // bounded rate, the rest stays queued
            }
        }
        Ok(())
    };
    let no_self = |net: &Net<Packet>| -> Result<(), Fail> {
        for i in 0..net.nodes.len() {
            let id = net.nodes[i].verif_node_id();
            if net.nodes[i].verif_peers().iter().any(|p| p.node_id == id || p.addr == net.addrs[i]) {
                return Err(Fail::new("self_peering", format!("node {} has itself as peer", i)));
            }
        }
        Ok(())
    };
    pump(&mut net, &mut point, &mut held, &mut partition_until, &mut last_effect)?;
    // run until every deviation has taken effect, then the reliable phase: peer timeout + retry horizon + margin
    let mut t = 0;
    let mut reliable_left: Option<i64> = None;
    let mut ever_connected = false;
    loop {
        net.tick();
        TICKS.fetch_add(1, std::sync::atomic::Ordering::Relaxed);
        pump(&mut net, &mut point, &mut held, &mut partition_until, &mut last_effect)?;
        no_self(&net)?;
        ever_connected |= (0..n).any(|i| !net.nodes[i].verif_peers().is_empty());
        t += 1;
        let outage_pending = c.outage.map(|(start, len)| net.now - START_TIME < start + len).unwrap_or(false);
        let hold_pending = c.devs.iter().any(|d| if let Dev::HoldAt(at, _) = d.1 { net.now - START_TIME <= at } else { false });
        let pending_devs = (c.devs.iter().any(|d| d.0 >= point && d.0 < PREFIX && !matches!(d.1, Dev::HoldAt(_, _))) && t < 40) || outage_pending || hold_pending;
        if reliable_left.is_none() && !pending_devs && held.is_empty() && net.now >= partition_until && net.now >= last_effect {
            reliable_left = Some(300 + 120 + 10);
        }
        if let Some(r) = reliable_left.as_mut() {
            *r -= 1;
            if *r <= 0 {
                break;
            }
            // early exit: connected and stable for 5 s
            if net.fully_meshed() && *r < 300 + 120 + 10 - 5 && *r % 7 == 0 {
                // keep going a little to catch late disconnects caused by stale datagrams, but not the whole horizon
                if *r < 200 {
                    break;
                }
            }
        }
        if t > 2000 {
            return Err(Fail::new("harness", "execution did not reach its reliable phase"));
        }
    }
    if c.variant.starts_with("unconfigured") && !ever_connected {
        // a single dial that never got an answer leaves nothing behind that could dial again: nothing to demand
        return Ok(0);
    }
    if !net.fully_meshed() {
        let missing: Vec<(usize, usize)> = (0..n).flat_map(|i| (0..n).map(move |j| (i, j))).filter(|(i, j)| i != j && !net.connected(*i, *j)).collect();
        return Err(Fail::new("no_recovery", format!("after the reliable phase (peer timeout + retry horizon) the pairs {:?} are not connected; deviations {:?}", missing, c.devs))
            .with("deviations", c.devs.len() as u64)
            .with("variant", c.variant.clone())
            .with("dial", c.dial.clone()));
    }
    // payload in both directions
    for i in 0..n {
        for j in 0..n {
            if i == j {
                continue;
            }
            for k in 0..n {
                net.pop_frames(k);
            }
            let pkt = ipv4_packet([10, i as u8, 0, 1], [10, j as u8, 0, 1], b"c05 node-level probe");
            net.put_frame(i, pkt.clone()).map_err(|e| Fail::new("send_error", format!("{} -> {}: {}", i, j, e)))?;
            net.deliver_all(64);
            if net.pop_frames(j) != vec![pkt] {
                return Err(Fail::new("payload_lost", format!("connected, but a packet {} -> {} is not delivered", i, j)).with("dial", c.dial.clone()));
            }
        }
    }
    Ok(1 + c.devs.len() as u64)
}

pub fn cases(tier: Tier) -> Vec<DevCase> {
    let mut v = vec![];
    let dials: &[&str] = tier.pick(&["a", "both"][..], &["a", "b", "both", "three"][..]);
    for dial in dials {
        for reverse_salts in [false, true] {
            v.push(DevCase { dial: dial.to_string(), reverse_salts, devs: vec![], outage: None, variant: String::new() });
            let points = if *dial == "three" { PREFIX } else { 10 };
            for p in 0..points {
                for d in menu() {
                    v.push(DevCase { dial: dial.to_string(), reverse_salts, devs: vec![(p, d)], outage: None, variant: String::new() });
                }
            }
            // late duplicates (a copy arrives after linger end / retry budget) alone and followed by an outage longer than the
            // peer timeout, and plain deviations followed by such an outage
            if *dial != "three" {
                for p in 0..6 {
                    for k in [61i64, 70, 121, 130] {
                        for outage in [None, Some((200i64, 320i64)), Some((260, 430))] {
                            v.push(DevCase { dial: dial.to_string(), reverse_salts, devs: vec![(p, Dev::DupHold(k))], outage, variant: String::new() });
                        }
                    }
                    for d in [Dev::Drop, Dev::Hold(61), Dev::Hold(130)] {
                        v.push(DevCase { dial: dial.to_string(), reverse_salts, devs: vec![(p, d)], outage: Some((150, 320)), variant: String::new() });
                    }
                }
                v.push(DevCase { dial: dial.to_string(), reverse_salts, devs: vec![], outage: Some((30, 320)), variant: String::new() });
            }
            // a dial that is made once (an address learned from a peer list): afterwards only timeouts make anybody dial again.
            // One-way loss from a given datagram on, alone and combined with a late delay of everything sent in one second
            if *dial == "a" {
                for variant in ["unconfigured", "unconfigured_t60"] {
                    v.push(DevCase { dial: dial.to_string(), reverse_salts, devs: vec![], outage: None, variant: variant.to_string() });
                    for p in 0..8 {
                        for d in [Dev::Drop, Dev::Hold(61), Dev::Hold(130), Dev::Partition, Dev::OneWay(62), Dev::OneWay(125), Dev::OneWay(200)] {
                            v.push(DevCase { dial: dial.to_string(), reverse_salts, devs: vec![(p, d.clone())], outage: None, variant: variant.to_string() });
                        }
                    }
                    for p in 0..tier.pick(4, 8) {
                        for ow in [62i64, 125] {
                            for at in [90i64, 100, 110, 118, 119, 120, 121] {
                                for k in [70i64, 85] {
                                    v.push(DevCase { dial: dial.to_string(), reverse_salts, devs: vec![(p, Dev::OneWay(ow)), (99, Dev::HoldAt(at, k))], outage: None, variant: variant.to_string() });
                                }
                            }
                        }
                    }
                }
            }
            // two deviations
            let pts2 = tier.pick(6, points);
            let m2: Vec<Dev> = if tier == Tier::Quick { vec![Dev::Drop, Dev::Dup, Dev::Hold(2), Dev::Hold(61), Dev::Hold(130)] } else { menu() };
            if *dial == "three" && tier == Tier::Thorough && reverse_salts {
                continue;
            }
            for p in 0..pts2 {
                for q in (p + 1)..pts2 {
                    for d1 in &m2 {
                        for d2 in &m2 {
                            v.push(DevCase { dial: dial.to_string(), reverse_salts, devs: vec![(p, d1.clone()), (q, d2.clone())], outage: None, variant: String::new() });
                        }
                    }
                }
            }
        }
    }
    v
}

pub fn run_node_level(ctx: &Ctx) {
    let list = cases(ctx.tier);
    let st = sweep_list(ctx, "node_deviations", &list, SweepOpts { chunk: 1, ..Default::default() }, run_dev);
    let b2 = list.iter().filter(|c| c.devs.len() == 2).count();
    let b1 = list.iter().filter(|c| c.devs.len() == 1).count();
    let mut fams = ctx.families.lock().unwrap();
    if let Some(f) = fams.iter_mut().find(|f| f.name == "node_deviations") {
        f.extra.insert("executions_b0".into(), serde_json::json!(list.len() - b1 - b2));
        f.extra.insert("executions_b1".into(), serde_json::json!(b1));
        f.extra.insert("executions_b2".into(), serde_json::json!(b2));
        f.extra.insert("completed_bound".into(), serde_json::json!(2));
        // states = executions (each ends in one checked end state), transitions = measured hand-over decisions + housekeeping rounds
        f.states = st.evaluations;
        f.transitions = TICKS.load(std::sync::atomic::Ordering::Relaxed) + HANDOVERS.load(std::sync::atomic::Ordering::Relaxed);
    }
}

pub fn replay_node_level(case: &Value) -> Option<CaseResult> {
    replay_with::<DevCase>(case, run_dev)
}
