//! C05 Handshake agrees and recovers under loss, duplication, reordering, dual open.
//! E1 (object level): explicit-state search over two REAL PeerCrypto objects: all schedules of
//! {A initiates, B initiates, deliver ANY in-flight datagram, duplicate, drop, tick A/B (x1, x61, x121), restart A/B}.
//! The node-level half (real dispatch in GenericCloud, recovery once delivery is reliable) is in c05n.rs.
use super::{common::*, Prop};
use crate::{
    crypto::{verif as cv, MessageResult, PeerCrypto},
    error::Error,
    mc::{
        explore::{self, ExploreOpts, Model},
        util::{self, Renamer},
        CaseResult, Ctx, Fail, Tier,
    },
    util::MsgBuffer,
};
use serde_json::Value;
use std::{collections::HashMap, time::Duration};

#[derive(Clone, Debug, Serialize, Deserialize, PartialEq)]
pub enum Ev {
    InitA,
    InitB,
    Deliver(usize),
    TickA,
    TickB,
    Dup(usize),
    Drop(usize),
    TickA61,
    TickB61,
    TickA121,
    TickB121,
    RestartA,
    RestartB,
}

pub struct Flight {
    to_a: bool,
    bytes: Vec<u8>,
    /// generation of the object that produced it
    gen: u32,
}

pub struct Side {
    pub pc: Option<PeerCrypto<Blob>>,
    pub gen: u32,
    /// payload received at completion, generation of the peer object whose datagram completed us, rotation role
    pub done: Option<(Vec<u8>, u32, bool)>,
    pub completions: u32,
}

pub struct Sys {
    pub a: Side,
    pub b: Side,
    pub pool: Vec<Flight>,
    pub overflow: u32,
    bases: HashMap<(bool, u32, usize, [u8; 16]), u128>,
}

pub struct M {
    pub a_wins: bool,
    pub algos: Vec<&'static str>,
    pub pool_cap: usize,
    pub max_restarts: u32,
    pub plain: bool,
}

impl M {
    fn new_object(&self, is_a: bool) -> PeerCrypto<Blob> {
        let (sa, sb) = if self.a_wins { ([0xf0, 0, 0, 1], [0x10, 0, 0, 2]) } else { ([0x10, 0, 0, 1], [0xf0, 0, 0, 2]) };
        let mut algos = self.algos.clone();
        if self.plain {
            algos.push("plain");
        }
        let c = mk_crypto(node_id(if is_a { 1 } else { 2 }), &cfg_with_key(0, &[0], &algos), [100.0, 90.0, 80.0]).expect("crypto");
        cv::init_verif::set_salt_override(Some(if is_a { sa } else { sb }));
        let pc = c.peer_instance(Blob(vec![if is_a { 1 } else { 2 }]));
        cv::init_verif::set_salt_override(None);
        pc
    }

    fn push(&self, s: &mut Sys, to_a: bool, bytes: Vec<u8>, gen: u32) {
        // The pool is a set: an identical datagram already in flight (a retransmission) adds nothing, because Dup(i) can
        // deliver any in-flight datagram any number of times.
        if s.pool.iter().any(|f| f.to_a == to_a && f.bytes == bytes) {
            return;
        }
        if s.pool.len() >= self.pool_cap {
            s.pool.remove(0);
            s.overflow += 1;
        }
        s.pool.push(Flight { to_a, bytes, gen });
    }

    fn tick(&self, s: &mut Sys, is_a: bool, n: usize) -> Result<(), Fail> {
        for _ in 0..n {
            let side = if is_a { &mut s.a } else { &mut s.b };
            let gen = side.gen;
            let pc = match side.pc.as_mut() {
                Some(pc) => pc,
                None => return Ok(()),
            };
            let mut out = MsgBuffer::new(SPACE);
            match pc.every_second(&mut out) {
                Ok(MessageResult::Reply) => {
                    let bytes = out.message().to_vec();
                    self.push(s, !is_a, bytes, gen);
                }
                Ok(MessageResult::None) => {}
                Ok(other) => return Err(Fail::new("unexpected_result", format!("every_second returned {:?}", other))),
                Err(_) => {
                    // crypto_housekeep deletes the object on any error
                    side.pc = None;
                }
            }
        }
        Ok(())
    }

    fn deliver(&self, s: &mut Sys, i: usize, remove: bool) -> Result<(), Fail> {
        let (to_a, bytes, from_gen) = (s.pool[i].to_a, s.pool[i].bytes.clone(), s.pool[i].gen);
        if remove {
            s.pool.remove(i);
        }
        let side = if to_a { &mut s.a } else { &mut s.b };
        let gen = side.gen;
        let pc = match side.pc.as_mut() {
            Some(pc) => pc,
            None => return Ok(()), // no object: the datagram meets nobody (node level decides what happens then)
        };
        let mut buf = MsgBuffer::new(SPACE);
        load_with_tail(&mut buf, &bytes, 0);
        let res = pc.handle_message(&mut buf);
        match res {
            Ok(MessageResult::Initialized(p)) | Ok(MessageResult::InitializedWithReply(p)) => {
                side.completions += 1;
                if side.completions > 1 {
                    return Err(Fail::new("completed_twice", format!("{} reported completion twice for one attempt", if to_a { "A" } else { "B" })));
                }
                let v = pc.verif_state();
                let rot_init = v.rotation.as_ref().map(|r| r.message_id == 1 && r.proposed.is_some()).unwrap_or(false);
                side.done = Some((p.0.clone(), from_gen, rot_init));
                if !buf.is_empty() {
                    let reply = buf.message().to_vec();
                    self.push(s, !to_a, reply, gen);
                }
            }
            Ok(MessageResult::Reply) => {
                let reply = buf.message().to_vec();
                self.push(s, !to_a, reply, gen);
            }
            Ok(MessageResult::None) | Ok(MessageResult::Message(_)) => {}
            Err(Error::CryptoInitFatal(_)) => {
                // handle_socket_event removes the handshake object on a fatal handshake error
                side.pc = None;
            }
            Err(_) => {}
        }
        Ok(())
    }

    fn note_bases(&self, s: &mut Sys) {
        for (is_a, side) in [(true, &s.a), (false, &s.b)] {
            if let Some(pc) = &side.pc {
                let v = pc.verif_state();
                for core in v.core.iter().chain(v.init.iter().filter_map(|i| i.crypto.as_ref())) {
                    for (slot, k) in core.keys.iter().enumerate() {
                        s.bases.entry((is_a, side.gen, slot, k.fingerprint)).or_insert_with(|| util::be96_to_u128(&k.send_nonce));
                    }
                }
            }
        }
    }

    /// Agreement oracle on the current pair of objects.
    fn agreement(&self, s: &Sys) -> Result<(), Fail> {
        let (da, db) = match (&s.a.done, &s.b.done) {
            (Some(x), Some(y)) => (x, y),
            _ => return Ok(()),
        };
        // same attempt: each was completed by a datagram of the other's CURRENT object
        if da.1 != s.b.gen || db.1 != s.a.gen {
            return Ok(());
        }
        let (pa, pb) = match (&s.a.pc, &s.b.pc) {
            (Some(x), Some(y)) => (x, y),
            _ => return Ok(()),
        };
        let (va, vb) = (pa.verif_state(), pb.verif_state());
        if pa.algorithm_name() != pb.algorithm_name() {
            return Err(Fail::new("cipher_disagreement", format!("A uses {}, B uses {}", pa.algorithm_name(), pb.algorithm_name())));
        }
        if da.0 != vec![2] || db.0 != vec![1] {
            return Err(Fail::new("payload_mismatch", format!("A received {:?}, B received {:?}", da.0, db.0)));
        }
        match (&va.core, &vb.core) {
            (Some(ca), Some(cb)) => {
                if ca.nonce_half == cb.nonce_half {
                    return Err(Fail::new("same_half", "both ends completed with the same nonce half"));
                }
                if da.2 == db.2 {
                    return Err(Fail::new("rotation_roles", format!("rotation initiator flags: A={} B={} (exactly one must start key rotation)", da.2, db.2)));
                }
                // (key equality is established by the destructive probe: what one seals the other opens)
            }
            (None, None) => {
                if !(va.unencrypted && vb.unencrypted) {
                    return Err(Fail::new("no_core", "completed without crypto core although not unencrypted"));
                }
            }
            _ => return Err(Fail::new("cipher_disagreement", "one end encrypted, the other not")),
        }
        Ok(())
    }
}

impl Model for M {
    type Ev = Ev;
    type Sys = Sys;

    fn init(&self) -> Sys {
        let mut s = Sys {
            a: Side { pc: Some(self.new_object(true)), gen: 0, done: None, completions: 0 },
            b: Side { pc: Some(self.new_object(false)), gen: 0, done: None, completions: 0 },
            pool: vec![],
            overflow: 0,
            bases: HashMap::new(),
        };
        self.note_bases(&mut s);
        s
    }

    fn enabled(&self, s: &Sys, _hist: &[Ev]) -> Vec<Ev> {
        let mut v = vec![];
        let fresh = |side: &Side| {
            side.pc
                .as_ref()
                .map(|pc| {
                    let st = pc.verif_state();
                    st.init.as_ref().map(|i| i.next_stage == cv::STAGE_PING && i.last_message.is_none()).unwrap_or(false)
                })
                .unwrap_or(false)
        };
        if fresh(&s.a) {
            v.push(Ev::InitA);
        }
        if fresh(&s.b) {
            v.push(Ev::InitB);
        }
        for i in 0..s.pool.len() {
            v.push(Ev::Deliver(i));
        }
        if s.a.pc.is_some() {
            v.push(Ev::TickA);
        }
        if s.b.pc.is_some() {
            v.push(Ev::TickB);
        }
        for i in 0..s.pool.len() {
            v.push(Ev::Dup(i));
        }
        for i in 0..s.pool.len() {
            v.push(Ev::Drop(i));
        }
        if s.a.pc.is_some() {
            v.push(Ev::TickA61);
            v.push(Ev::TickA121);
        }
        if s.b.pc.is_some() {
            v.push(Ev::TickB61);
            v.push(Ev::TickB121);
        }
        if s.a.gen < self.max_restarts {
            v.push(Ev::RestartA);
        }
        if s.b.gen < self.max_restarts {
            v.push(Ev::RestartB);
        }
        v
    }

    fn apply(&self, s: &mut Sys, ev: &Ev) -> Result<(), Fail> {
        match ev {
            Ev::InitA | Ev::InitB => {
                let is_a = *ev == Ev::InitA;
                let side = if is_a { &mut s.a } else { &mut s.b };
                let gen = side.gen;
                let mut buf = MsgBuffer::new(SPACE);
                side.pc.as_mut().unwrap().initialize(&mut buf).map_err(|e| Fail::new("initialize_failed", format!("{}", e)))?;
                let bytes = buf.message().to_vec();
                self.push(s, !is_a, bytes, gen);
            }
            Ev::Deliver(i) => self.deliver(s, *i, true)?,
            Ev::Dup(i) => self.deliver(s, *i, false)?,
            Ev::Drop(i) => {
                s.pool.remove(*i);
            }
            Ev::TickA => self.tick(s, true, 1)?,
            Ev::TickB => self.tick(s, false, 1)?,
            Ev::TickA61 => self.tick(s, true, 61)?,
            Ev::TickB61 => self.tick(s, false, 61)?,
            Ev::TickA121 => self.tick(s, true, 121)?,
            Ev::TickB121 => self.tick(s, false, 121)?,
            Ev::RestartA | Ev::RestartB => {
                let is_a = *ev == Ev::RestartA;
                let pc = self.new_object(is_a);
                let side = if is_a { &mut s.a } else { &mut s.b };
                side.gen += 1;
                side.pc = Some(pc);
                side.done = None;
                side.completions = 0;
            }
        }
        self.note_bases(s);
        self.agreement(s)
    }

    fn canon(&self, s: &Sys) -> Vec<u8> {
        let mut r = Renamer::default();
        let mut out = String::new();
        for (is_a, side) in [(true, &s.a), (false, &s.b)] {
            out.push_str(&format!("|gen={} done={:?} n={}", side.gen, side.done.as_ref().map(|d| (d.0.clone(), d.1, d.2)), side.completions));
            let pc = match &side.pc {
                Some(pc) => pc,
                None => {
                    out.push_str(" dead");
                    continue;
                }
            };
            let v = pc.verif_state();
            let core_str = |core: &cv::core::CoreView, r: &mut Renamer| -> String {
                let mut t = format!("cur={} half={}", core.current_key, core.nonce_half);
                for (slot, k) in core.keys.iter().enumerate() {
                    let own = s.bases.get(&(is_a, side.gen, slot, k.fingerprint)).cloned().unwrap_or(0);
                    // receive window relative to the peer's base for the same key (any generation of the peer that holds it)
                    let peer_base = s.bases.iter().filter(|((pa, _, ps, fp), _)| *pa != is_a && *ps == slot && *fp == k.fingerprint).map(|(_, b)| *b).min();
                    let off = |x: &[u8; 12]| -> i128 {
                        let v = util::be96_to_u128(x);
                        if v < 2 {
                            -1 - v as i128
                        } else {
                            peer_base.map(|b| v.wrapping_sub(b) as i128).unwrap_or(i128::MAX)
                        }
                    };
                    t.push_str(&format!(
                        " k({} s={} seen={} nx={} mn={})",
                        r.id(&k.fingerprint),
                        util::be96_to_u128(&k.send_nonce).wrapping_sub(own),
                        off(&k.seen_nonce),
                        off(&k.next_min_nonce),
                        off(&k.min_nonce)
                    ));
                }
                t
            };
            if let Some(i) = &v.init {
                out.push_str(&format!(
                    " init(h={} st={} ct={} fr={} last={} ecdh={} algo={:?} crypto=[{}])",
                    r.id(&i.salted_node_id_hash),
                    i.next_stage,
                    i.close_time,
                    i.failed_retries,
                    r.opt(i.last_message.as_deref()),
                    r.opt(i.ecdh_public_key.as_deref()),
                    i.selected_algorithm,
                    i.crypto.as_ref().map(|c| core_str(c, &mut r)).unwrap_or_default()
                ));
            }
            if let Some(c) = &v.core {
                out.push_str(&format!(" core[{}]", core_str(c, &mut r)));
            }
            if let Some(rot) = &v.rotation {
                out.push_str(&format!(
                    " rot(id={} to={} conf={} pend={} prop={})",
                    rot.message_id,
                    rot.timeout,
                    rot.confirmed.is_some(),
                    rot.pending.as_ref().map(|(k, p)| (r.id(k), r.id(p))).map(|x| format!("{:?}", x)).unwrap_or_default(),
                    r.opt(rot.proposed.as_deref())
                ));
            }
            out.push_str(&format!(" un={} rc={}", v.unencrypted, v.rotate_counter));
        }
        // pool: handshake datagrams are identified by their bytes (class); sealed ones additionally by nothing else
        // handshake datagrams are described by their CONTENT (stage, sender hash, ECDH key, payload - renamed consistently
        // with the objects' own fields), sealed ones by slot and bytes class
        let trusted = mk_crypto(node_id(9), &cfg_with_key(0, &[0], &[]), [1.0, 1.0, 1.0]).expect("crypto");
        let items: Vec<String> = s
            .pool
            .iter()
            .map(|f| {
                let content = if f.bytes.first() == Some(&0xff) {
                    match cv::init_verif::read_from(&f.bytes[1..], trusted.verif_trusted_keys()) {
                        Ok((cv::InitMsg::Ping { salted_node_id_hash, ecdh_public_key, .. }, _)) => {
                            format!("ping h={} k={}", r.id(&salted_node_id_hash), r.id(ecdh_public_key.bytes()))
                        }
                        Ok((cv::InitMsg::Pong { salted_node_id_hash, ecdh_public_key, encrypted_payload, .. }, _)) => {
                            format!("pong h={} k={} p={}", r.id(&salted_node_id_hash), r.id(ecdh_public_key.bytes()), r.id(encrypted_payload.message()))
                        }
                        Ok((cv::InitMsg::Peng { salted_node_id_hash, encrypted_payload }, _)) => {
                            format!("peng h={} p={}", r.id(&salted_node_id_hash), r.id(encrypted_payload.message()))
                        }
                        Err(_) => "init?".to_string(),
                    }
                } else if f.bytes.is_empty() {
                    "empty".to_string()
                } else {
                    format!("sealed slot={}", f.bytes[0])
                };
                format!("f(to_a={} {} gen={} c={})", f.to_a, content, f.gen, r.id(&f.bytes))
            })
            .collect();
        // the order of the pool is part of the state: overflow evicts the oldest datagram
        out.push_str(&items.join(","));
        out.into_bytes()
    }

    fn probe_once_per_state(&self) -> bool {
        true
    }

    fn probe(&self, mut s: Sys, _hist: &[Ev]) -> Result<u64, Fail> {
        let mut class = 0u64;
        // destructive probe: if both completed the same attempt, each opens what the other seals
        let paired = matches!((&s.a.done, &s.b.done), (Some(x), Some(y)) if x.1 == s.b.gen && y.1 == s.a.gen) && s.a.pc.is_some() && s.b.pc.is_some();
        if paired {
            class |= 1;
            let (a, b) = (s.a.pc.as_mut().unwrap(), s.b.pc.as_mut().unwrap());
            probe(a, b, 0, b"probe a->b").map_err(|e| Fail::new("keys_differ", format!("both completed but B cannot open what A seals: {}", e)))?;
            probe(b, a, 0, b"probe b->a").map_err(|e| Fail::new("keys_differ", format!("both completed but A cannot open what B seals: {}", e)))?;
        }
        // bounded liveness: fault-free suffix (deliver all FIFO, tick both) for 125 ticks; if both objects are still alive
        // at the end, both must have completed the same attempt and agree
        // The network is reliable but not infinitely fast: at most 32 deliveries between two ticks (two objects that
        // both wait for a peng answer each other's pong with their own pong for ever - an observation recorded in
        // DESIGN.md - so "deliver until quiescent" would not terminate).
        let mut storm = false;
        for t in 0..125 {
            let mut n = 0;
            // bandwidth: 32 datagrams per tick at first, 4 per tick once a storm has been seen for 3 ticks
            let rate = if storm && t >= 3 { 4 } else { 32 };
            while !s.pool.is_empty() && n < rate {
                self.deliver(&mut s, 0, true)?;
                n += 1;
            }
            storm |= n >= rate;
            self.agreement(&s)?;
            let idle = |side: &Side| side.pc.as_ref().map(|pc| pc.verif_state().init.as_ref().map(|i| i.last_message.is_none()).unwrap_or(true)).unwrap_or(true);
            let settled = s.pool.is_empty()
                && ((idle(&s.a) && idle(&s.b))
                    || s.a.pc.is_none()
                    || s.b.pc.is_none()
                    || matches!((&s.a.done, &s.b.done), (Some(x), Some(y)) if x.1 == s.b.gen && y.1 == s.a.gen));
            if settled {
                break;
            }
            self.tick(&mut s, true, 1)?;
            self.tick(&mut s, false, 1)?;
        }
        let mut n = 0;
        while !s.pool.is_empty() && n < 64 {
            self.deliver(&mut s, 0, true)?;
            n += 1;
        }
        self.agreement(&s)?;
        if storm {
            class |= 32;
        }
        if s.a.pc.is_some() && s.b.pc.is_some() {
            let fresh = |side: &Side| side.pc.as_ref().unwrap().verif_state().init.as_ref().map(|i| i.next_stage == cv::STAGE_PING && i.last_message.is_none()).unwrap_or(false);
            if fresh(&s.a) && fresh(&s.b) {
                class |= 2; // nobody ever initiated: nothing to demand
            } else if fresh(&s.a) || fresh(&s.b) {
                // one object never took part (its peer's datagrams were all consumed by an earlier generation): the
                // node would create it on demand; nothing to demand from the bare objects
                class |= 4;
            } else {
                let ok = matches!((&s.a.done, &s.b.done), (Some(x), Some(y)) if x.1 == s.b.gen && y.1 == s.a.gen);
                if !ok {
                    return Err(Fail::new(
                        "no_recovery",
                        format!("after 125 loss-free ticks both handshake objects are alive but have not completed with each other (A done: {:?}, B done: {:?})",
                            s.a.done.as_ref().map(|d| d.1), s.b.done.as_ref().map(|d| d.1)),
                    ));
                }
                let (a, b) = (s.a.pc.as_mut().unwrap(), s.b.pc.as_mut().unwrap());
                probe(a, b, 0, b"late a->b").map_err(|e| Fail::new("keys_differ", format!("after recovery B cannot open what A seals: {}", e)))?;
                probe(b, a, 0, b"late b->a").map_err(|e| Fail::new("keys_differ", format!("after recovery A cannot open what B seals: {}", e)))?;
                class |= 8;
            }
        } else {
            class |= 16;
        }
        Ok(class | ((s.overflow.min(3) as u64) << 8))
    }
}

pub fn variants(tier: Tier) -> Vec<(String, M, usize)> {
    let d = tier.pick(6, 10);
    let mut v = vec![
        ("handshake_a_wins".to_string(), M { a_wins: true, algos: vec!["aes128"], pool_cap: 4, max_restarts: 1, plain: false }, d),
        ("handshake_b_wins".to_string(), M { a_wins: false, algos: vec!["aes128"], pool_cap: 4, max_restarts: 1, plain: false }, d),
    ];
    v.push(("handshake_plain".to_string(), M { a_wins: true, algos: vec!["aes128"], pool_cap: 4, max_restarts: 0, plain: true }, tier.pick(5, 7)));
    if tier == Tier::Thorough {
        v.push(("handshake_chacha_b".to_string(), M { a_wins: false, algos: vec!["chacha20"], pool_cap: 4, max_restarts: 0, plain: false }, 7));
    }
    v
}

pub fn run_object_level(ctx: &Ctx) {
    super::c05n::run_node_level(ctx);
    super::c05e::run(ctx);
    ctx.assume("object level: two parties, at most 4 distinct datagrams in flight (identical retransmissions are one datagram; Dup delivers any of them again), at most one restart per side");
    ctx.assume("fair suffix: reliable network with bounded rate (32 datagrams per tick, 4 once an echo storm was seen for 3 ticks), 125 ticks");
    ctx.assume("node level: deviations only at the first 10-14 datagram hand-overs, at most 2 per execution; reliable phase 430 s");
    ctx.assume("fresh values (keys, ECDH halves, hashes, message bytes) renamed by first occurrence; the order of the two salted hashes is owned through the H5 seam, both orientations explored");
    for (i, (fam, m, depth)) in variants(ctx.tier).into_iter().enumerate() {
        let res = explore::explore(
            ctx,
            &fam,
            &m,
            ExploreOpts { max_depth: depth, wall_cap: Duration::from_secs(ctx.tier.pick(400, 2400)), state_cap: ctx.tier.pick(400_000, 8_000_000), dedup: true },
        );
        if i == 0 {
            explore::audit_dedup(ctx, &fam, &m, &res, 4, Duration::from_secs(ctx.tier.pick(300, 600)));
        }
    }
}

pub fn replay_object_level(family: &str, case: &Value) -> Option<CaseResult> {
    if family == "node_deviations" {
        return super::c05n::replay_node_level(case);
    }
    if family.starts_with("node_schedules") {
        return super::c05e::replay(family, case);
    }
    let fam = family.trim_end_matches("-audit");
    let (_, m, _) = variants(Tier::Thorough).into_iter().find(|(f, _, _)| f == fam)?;
    let hist: Vec<Ev> = serde_json::from_value(case["history"].clone()).ok()?;
    Some(explore::replay_history(&m, &hist))
}

pub fn prop() -> Prop {
    Prop {
        id: "C05",
        title: "Handshake agrees and recovers under loss, duplication, reordering, dual open",
        level: "model_checking",
        rule: "explicit-state BFS by history replay over two real PeerCrypto objects (both salted-hash orientations, plain variant): alphabet InitA, InitB, \
               Deliver(i)/Dup(i)/Drop(i) for ANY of <= 4 in-flight datagrams, TickA/B x1, x61, x121, RestartA/B (fresh object, in-flight pool kept); objects that \
               return a fatal handshake error are discarded as the node does. Oracle in every state: at most one completion per object; if both completed the same \
               attempt: same cipher, opposite halves, exactly one rotation initiator, exchanged payloads, probes open both ways; from every state 125 loss-free \
               ticks must bring two live objects to a common completed attempt. Node level: explicit-state search over two real nodes (depth 5 / 6) and all placements of <= 2 deviations incl. one-way loss, timed holds, one-shot dials and a 60 s peer timeout. distinct_nontrivial = canonical states",
        run: run_object_level,
        replay: replay_object_level,
    }
}
