//! C07 Key rotation never strands traffic and keeps keys fresh.
//! E1: explicit-state search over two REAL PeerCrypto objects (after a genuine handshake): all schedules of
//! {rotation cycle at A, cycle at B, deliver / duplicate / drop any in-flight rotation datagram} to a depth bound.
//! State invariant + destructive probes after every transition; bounded fair extension for freshness.
use super::{common::*, Prop};
use crate::{
    crypto::{verif as cv, MessageResult, PeerCrypto},
    mc::{
        explore::{self, ExploreOpts, Model},
        util::{self, Renamer},
        CaseResult, Ctx, Fail, Tier,
    },
    util::MsgBuffer,
};
use serde_json::Value;
use std::{collections::HashMap, time::Duration};

pub fn prop() -> Prop {
    Prop {
        id: "C07",
        title: "Key rotation never strands traffic and keeps keys fresh",
        level: "model_checking",
        rule: "explicit-state BFS by history replay over two real PeerCrypto objects taken through a genuine handshake (both hash orientations, each cipher \
               in thorough); alphabet CycleA, CycleB (120 real every_second calls), Deliver(i), Dup(i), Drop(i) on a pool of <= 4 in-flight rotation datagrams; \
               canonical states (relative message ids, key classes, counters as offsets); after every transition: sealing key of each end is held by the peer \
               under the same key id with the same fingerprint, a probe sealed by each end opens at the other; from every state a loss-free fair extension of 6 \
               rounds must change each end's sealing key at least twice in its last 4 rounds. Plus a FIFO-with-loss alphabet to depth 11 / 16 (key slots re-used before a message is delayed). distinct_nontrivial = canonical states",
        run,
        replay,
    }
}

#[derive(Clone, Debug, Serialize, Deserialize, PartialEq)]
pub enum Ev {
    CycleA,
    CycleB,
    Deliver(usize),
    Dup(usize),
    Drop(usize),
}

pub struct Flight {
    to_a: bool,
    bytes: Vec<u8>,
    id: u64,
    propose: Vec<u8>,
    confirm: Option<Vec<u8>>,
    /// fingerprint of the key it was sealed with (the sender's current key at emission)
    sealed_with: [u8; 16],
}

pub struct Sys {
    pub a: PeerCrypto<Blob>,
    pub b: PeerCrypto<Blob>,
    pub pool: Vec<Flight>,
    /// (sender is a, key fingerprint) -> first observed send counter
    bases: HashMap<(bool, usize, [u8; 16]), u128>,
    pub pool_overflow: bool,
}

pub struct M {
    pub algos: Vec<&'static str>,
    pub a_wins: bool, // salted-hash orientation
    pub pool_cap: usize,
    /// FIFO network with loss only (deliver the oldest datagram, drop it, cycle A, cycle B): a small alphabet for deep schedules
    /// (several completed rotations, so that key slots are re-used, followed by a delayed message)
    pub narrow: bool,
}

pub const CYCLE: usize = 120;

fn counter_from_wire(bytes: &[u8], sender_half: bool) -> u128 {
    let mut n = [0u8; 12];
    n[5..].copy_from_slice(&bytes[1..8]);
    n[0] = if sender_half { 0x80 } else { 0 };
    util::be96_to_u128(&n)
}

impl Sys {
    fn note_bases(&mut self) {
        for (is_a, pc) in [(true, &self.a), (false, &self.b)] {
            if let Some(core) = pc.verif_state().core {
                for (slot, k) in core.keys.iter().enumerate() {
                    self.bases.entry((is_a, slot, k.fingerprint)).or_insert_with(|| util::be96_to_u128(&k.send_nonce));
                }
            }
        }
    }

    /// Rotation datagram just emitted by `from_a`: its content is (id, proposal, confirmation) as the sender's
    /// rotation state shows right after emission.
    fn push_flight(&mut self, from_a: bool, bytes: Vec<u8>, cap: usize) {
        let view = if from_a { self.a.verif_state() } else { self.b.verif_state() };
        let rot = view.rotation.expect("rotation state");
        let (id, confirm) = match rot.confirmed {
            Some((k, id)) => (id, Some(k)),
            None => (1, None),
        };
        let core = view.core.expect("core");
        let sealed_with = core.keys[(bytes[0] % 4) as usize].fingerprint;
        let f = Flight { to_a: !from_a, bytes, id, propose: rot.proposed.unwrap_or_default(), confirm, sealed_with };
        if self.pool.len() >= cap {
            self.pool_overflow = true;
            self.pool.remove(0); // the oldest in-flight datagram is lost (a legal network behaviour)
        }
        self.pool.push(f);
    }
}

/// Genuine handshake a -> b; returns the established pair plus the first rotation datagram (b -> a).
pub fn established_pair(algos: &[&str], a_wins: bool) -> Result<(PeerCrypto<Blob>, PeerCrypto<Blob>, Option<Vec<u8>>), Fail> {
    let (sa, sb) = if a_wins { ([0xf0, 0, 0, 1], [0x10, 0, 0, 2]) } else { ([0x10, 0, 0, 1], [0xf0, 0, 0, 2]) };
    let (mut a, mut b) = mk_pair(sa, sb, algos, [100.0, 90.0, 80.0]);
    let out = handshake(&mut a, &mut b);
    if out.a_done != Some(Blob(vec![2])) || out.b_done != Some(Blob(vec![1])) {
        return Err(Fail::new("handshake_failed", format!("set-up handshake failed: {:?} {:?}", out.a_err, out.b_err)));
    }
    // the handshake helper delivered everything including the first rotation message; we want it in flight instead,
    // so redo the exchange by hand up to the peng
    let (mut a, mut b) = mk_pair(sa, sb, algos, [100.0, 90.0, 80.0]);
    let mut buf = MsgBuffer::new(SPACE);
    a.initialize(&mut buf).map_err(|e| Fail::new("setup", format!("{}", e)))?;
    let ping = buf.message().to_vec();
    load(&mut buf, &ping);
    b.handle_message(&mut buf).map_err(|e| Fail::new("setup", format!("ping: {}", e)))?;
    let pong = buf.message().to_vec();
    load(&mut buf, &pong);
    a.handle_message(&mut buf).map_err(|e| Fail::new("setup", format!("pong: {}", e)))?;
    let peng = buf.message().to_vec();
    load(&mut buf, &peng);
    let r = b.handle_message(&mut buf).map_err(|e| Fail::new("setup", format!("peng: {}", e)))?;
    let first = match r {
        MessageResult::InitializedWithReply(_) => Some(buf.message().to_vec()),
        _ => None,
    };
    Ok((a, b, first))
}

impl M {
    fn cycle(&self, s: &mut Sys, is_a: bool) -> Result<(), Fail> {
        let mut out = MsgBuffer::new(SPACE);
        for _ in 0..CYCLE {
            let pc = if is_a { &mut s.a } else { &mut s.b };
            match pc.every_second(&mut out) {
                Ok(MessageResult::Reply) => {
                    let bytes = out.message().to_vec();
                    if bytes.first() == Some(&0xff) {
                        // handshake retransmission of the lingering initiator: not part of this model's alphabet
                        continue;
                    }
                    s.push_flight(is_a, bytes, self.pool_cap);
                }
                Ok(_) => {}
                Err(e) => return Err(Fail::new("every_second_error", format!("every_second failed: {}", e))),
            }
        }
        Ok(())
    }

    fn deliver(&self, s: &mut Sys, i: usize, remove: bool) -> Result<(), Fail> {
        let (to_a, bytes) = (s.pool[i].to_a, s.pool[i].bytes.clone());
        if remove {
            s.pool.remove(i);
        }
        let mut buf = MsgBuffer::new(SPACE);
        load_with_tail(&mut buf, &bytes, 0);
        let pc = if to_a { &mut s.a } else { &mut s.b };
        match pc.handle_message(&mut buf) {
            Ok(MessageResult::None) => Ok(()),
            Ok(other) => Err(Fail::new("unexpected_result", format!("rotation datagram produced {:?}", other))),
            // a late duplicate may legitimately be refused by the replay window
            Err(crate::error::Error::Crypto(_)) => Ok(()),
            Err(e) => Err(Fail::new("deliver_error", format!("rotation datagram failed: {}", e))),
        }
    }

    /// State invariant on the views (non-destructive).
    fn invariant(&self, s: &Sys) -> Result<(), Fail> {
        let va = s.a.verif_state();
        let vb = s.b.verif_state();
        let (ca, cb) = match (va.core, vb.core) {
            (Some(x), Some(y)) => (x, y),
            _ => return Err(Fail::new("no_core", "crypto core missing after handshake")),
        };
        for (name, x, y) in [("A", &ca, &cb), ("B", &cb, &ca)] {
            let slot = x.current_key;
            if x.keys[slot].fingerprint != y.keys[slot].fingerprint {
                return Err(Fail::new("stranded", format!("{} seals with key id {} but the peer holds other key material under that id", name, slot))
                    .with("end", name));
            }
        }
        if ca.nonce_half == cb.nonce_half {
            return Err(Fail::new("same_half", "both ends use the same nonce half"));
        }
        Ok(())
    }

    fn sealing_fp(pc: &PeerCrypto<Blob>) -> [u8; 16] {
        let c = pc.verif_state().core.unwrap();
        c.keys[c.current_key].fingerprint
    }
}

impl Model for M {
    type Ev = Ev;
    type Sys = Sys;

    fn init(&self) -> Sys {
        let (a, b, first) = established_pair(&self.algos, self.a_wins).expect("set-up handshake");
        let mut s = Sys { a, b, pool: vec![], bases: HashMap::new(), pool_overflow: false };
        if let Some(bytes) = first {
            s.push_flight(false, bytes, self.pool_cap);
        }
        s.note_bases();
        s
    }

    fn enabled(&self, s: &Sys, _hist: &[Ev]) -> Vec<Ev> {
        let mut v = vec![];
        if self.narrow {
            if !s.pool.is_empty() {
                v.push(Ev::Deliver(0));
            }
            v.push(Ev::CycleA);
            v.push(Ev::CycleB);
            if !s.pool.is_empty() {
                v.push(Ev::Drop(0));
            }
            return v;
        }
        for i in 0..s.pool.len() {
            v.push(Ev::Deliver(i));
        }
        v.push(Ev::CycleA);
        v.push(Ev::CycleB);
        for i in 0..s.pool.len() {
            v.push(Ev::Drop(i));
        }
        for i in 0..s.pool.len() {
            v.push(Ev::Dup(i));
        }
        v
    }

    fn apply(&self, s: &mut Sys, ev: &Ev) -> Result<(), Fail> {
        match ev {
            Ev::CycleA => self.cycle(s, true)?,
            Ev::CycleB => self.cycle(s, false)?,
            Ev::Deliver(i) => self.deliver(s, *i, true)?,
            Ev::Dup(i) => self.deliver(s, *i, false)?,
            Ev::Drop(i) => {
                s.pool.remove(*i);
            }
        }
        s.note_bases();
        self.invariant(s)
    }

    fn canon(&self, s: &Sys) -> Vec<u8> {
        let mut r = Renamer::default();
        let va = s.a.verif_state();
        let vb = s.b.verif_state();
        let ida = va.rotation.as_ref().map(|x| x.message_id).unwrap_or(0);
        let idb = vb.rotation.as_ref().map(|x| x.message_id).unwrap_or(0);
        let low = ida.min(idb);
        // ids relative to the smaller one, shifted so that id mod 4 (the key slot) is preserved
        let rel_base = low - (low % 4);
        let mut out = String::new();
        for (is_a, v) in [(true, &va), (false, &vb)] {
            out.push_str(&format!("|init={:?}", v.init.as_ref().map(|i| (i.next_stage, i.close_time, i.failed_retries))));
            if let Some(rot) = &v.rotation {
                out.push_str(&format!(
                    " rot(id={} to={} conf={:?} pend={:?} prop={})",
                    rot.message_id - rel_base,
                    rot.timeout,
                    rot.confirmed.as_ref().map(|(k, id)| (r.id(k), id - rel_base)),
                    rot.pending.as_ref().map(|(k, p)| (r.id(k), r.id(p))),
                    r.opt(rot.proposed.as_deref()),
                ));
            }
            if let Some(core) = &v.core {
                out.push_str(&format!(" cur={} half={}", core.current_key, core.nonce_half));
                for (slot, k) in core.keys.iter().enumerate() {
                    let own_base = s.bases.get(&(is_a, slot, k.fingerprint)).cloned().unwrap_or(0);
                    let peer_base = s.bases.get(&(!is_a, slot, k.fingerprint)).cloned();
                    let off = |x: &[u8; 12]| -> i128 {
                        let v = util::be96_to_u128(x);
                        if v < 2 {
                            -1 - v as i128
                        } else {
                            match peer_base {
                                Some(b) => v.wrapping_sub(b) as i128,
                                None => i128::MAX, // counter of a key the peer never held: cannot happen for accepted datagrams
                            }
                        }
                    };
                    out.push_str(&format!(
                        " k({} s={} seen={} nx={} mn={})",
                        r.id(&k.fingerprint),
                        util::be96_to_u128(&k.send_nonce).wrapping_sub(own_base),
                        off(&k.seen_nonce),
                        off(&k.next_min_nonce),
                        off(&k.min_nonce)
                    ));
                }
            }
            out.push_str(&format!(" rc={}", v.rotate_counter));
        }
        // pool as a sorted multiset
        let mut items: Vec<String> = vec![];
        for f in &s.pool {
            let from_a = !f.to_a;
            let sender_view = if from_a { &va } else { &vb };
            let half = sender_view.core.as_ref().map(|c| c.nonce_half).unwrap_or(false);
            let slot = (f.bytes[0] % 4) as usize;
            let ctr = counter_from_wire(&f.bytes, half);
            let base = s.bases.get(&(from_a, slot, f.sealed_with)).cloned().unwrap_or(0);
            items.push(format!(
                "f(to_a={} id={} p={} c={} slot={} off={})",
                f.to_a,
                f.id as i128 - rel_base as i128,
                r.id(&f.propose),
                r.opt(f.confirm.as_deref()),
                slot,
                ctr.wrapping_sub(base)
            ));
        }
        // the order of the pool is part of the state: overflow evicts the oldest datagram
        out.push_str(&items.join(","));
        out.into_bytes()
    }

    fn probe_once_per_state(&self) -> bool {
        true
    }

    fn probe(&self, mut s: Sys, _hist: &[Ev]) -> Result<u64, Fail> {
        // destructive probes: a datagram sealed by either end opens at the other; wire key id = sender's current slot
        for dir in 0..2 {
            let a_to_b = dir == 0;
            let cur = (if a_to_b { &s.a } else { &s.b }).verif_state().core.unwrap().current_key;
            let (tx, rx) = if a_to_b { (&mut s.a, &mut s.b) } else { (&mut s.b, &mut s.a) };
            match probe(tx, rx, 0, b"probe-payload-0123456789") {
                Ok((t, payload, wire)) => {
                    if t != 0 || payload != b"probe-payload-0123456789" {
                        return Err(Fail::new("probe_corrupted", "probe payload changed in transit"));
                    }
                    if wire[0] as usize != cur {
                        return Err(Fail::new("wrong_key_id", format!("wire key id {} but current slot {}", wire[0], cur)));
                    }
                }
                Err(e) => {
                    return Err(Fail::new("stranded", format!("probe {} does not open at the peer: {}", if a_to_b { "A->B" } else { "B->A" }, e))
                        .with("end", if a_to_b { "A" } else { "B" }))
                }
            }
        }
        // bounded fair extension: loss-free rounds; each end's sealing key must keep changing
        let mut changes = [0u32; 2];
        let mut last = [M::sealing_fp(&s.a), M::sealing_fp(&s.b)];
        let deliver_all = |m: &M, s: &mut Sys| -> Result<(), Fail> {
            let mut guard = 0;
            while !s.pool.is_empty() {
                m.deliver(s, 0, true)?;
                guard += 1;
                if guard > 64 {
                    return Err(Fail::new("livelock", "more than 64 deliveries without quiescence"));
                }
            }
            Ok(())
        };
        deliver_all(self, &mut s)?;
        for round in 0..6 {
            for is_a in [true, false] {
                self.cycle(&mut s, is_a)?;
                deliver_all(self, &mut s)?;
                self.invariant(&s)?;
            }
            if round >= 2 {
                let now = [M::sealing_fp(&s.a), M::sealing_fp(&s.b)];
                for k in 0..2 {
                    if now[k] != last[k] {
                        changes[k] += 1;
                    }
                }
                last = now;
            } else {
                last = [M::sealing_fp(&s.a), M::sealing_fp(&s.b)];
            }
        }
        for k in 0..2 {
            if changes[k] < 2 {
                return Err(Fail::new(
                    "stale_key",
                    format!("{}'s sealing key changed only {} time(s) during 4 loss-free rounds (8 rotation intervals)", if k == 0 { "A" } else { "B" }, changes[k]),
                )
                .with("end", if k == 0 { "A" } else { "B" }));
            }
        }
        // probes again after the extension
        for a_to_b in [true, false] {
            let (tx, rx) = if a_to_b { (&mut s.a, &mut s.b) } else { (&mut s.b, &mut s.a) };
            probe(tx, rx, 0, b"after-extension").map_err(|e| Fail::new("stranded", format!("probe after fair extension fails: {}", e)).with("end", if a_to_b { "A" } else { "B" }))?;
        }
        Ok(changes[0] as u64 * 16 + changes[1] as u64 + if s.pool_overflow { 1000 } else { 0 })
    }
}

fn variants(tier: Tier) -> Vec<(String, M, usize)> {
    let mut v = vec![];
    let depth = tier.pick(7, 12);
    v.push(("rotation_aes128_a".to_string(), M { algos: vec!["aes128"], a_wins: true, pool_cap: 4, narrow: false }, depth));
    v.push(("rotation_aes128_b".to_string(), M { algos: vec!["aes128"], a_wins: false, pool_cap: 4, narrow: false }, depth - 1));
    v.push(("rotation_fifo_deep".to_string(), M { algos: vec!["aes128"], a_wins: true, pool_cap: 4, narrow: true }, tier.pick(11, 16)));
    if tier == Tier::Thorough {
        v.push(("rotation_aes256_a".to_string(), M { algos: vec!["aes256"], a_wins: true, pool_cap: 4, narrow: false }, 9));
        v.push(("rotation_chacha20_b".to_string(), M { algos: vec!["chacha20"], a_wins: false, pool_cap: 4, narrow: false }, 9));
    } else {
        v.push(("rotation_chacha20_a".to_string(), M { algos: vec!["chacha20"], a_wins: true, pool_cap: 4, narrow: false }, 5));
    }
    v
}

pub fn run(ctx: &Ctx) {
    for (i, (fam, m, depth)) in variants(ctx.tier).into_iter().enumerate() {
        let res = explore::explore(
            ctx,
            &fam,
            &m,
            ExploreOpts { max_depth: depth, wall_cap: Duration::from_secs(ctx.tier.pick(400, 1500)), state_cap: ctx.tier.pick(300_000, 5_000_000), dedup: true },
        );
        if i == 0 {
            explore::audit_dedup(ctx, &fam, &m, &res, ctx.tier.pick(5, 6), Duration::from_secs(ctx.tier.pick(300, 600)));
        }
    }
    ctx.assume("two parties; pool of at most 4 in-flight rotation datagrams (when full the oldest is lost, which is a legal network behaviour; occurrences are visible in the outcome classes)");
    ctx.assume("freshness is checked as bounded reachability: from every explored state, 6 loss-free rounds, the last 4 must change each end's sealing key at least twice");
    ctx.assume("fresh values (keys, ECDH public halves) are renamed by first occurrence; message ids are stored relative to the smaller id rounded down to a multiple of 4 (ids are only compared and reduced mod 4)");
}

pub fn replay(family: &str, case: &Value) -> Option<CaseResult> {
    let fam = family.trim_end_matches("-audit");
    let (_, m, _) = variants(Tier::Thorough).into_iter().chain(variants(Tier::Quick)).find(|(f, _, _)| f == fam)?;
    let hist: Vec<Ev> = serde_json::from_value(case["history"].clone()).ok()?;
    Some(explore::replay_history(&m, &hist))
}
