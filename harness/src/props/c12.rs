//! C12 Routes track peers: exactly the announced claims, nothing for the disconnected.
//! E3/E1 on a REAL ClaimTable: all sequences of announcements over all ordered lists of a 4-claim universe (plus lists
//! with a duplicated entry), interleaved with a second peer holding overlapping claims, with time steps; E2 on real
//! nodes driven by a scripted peer: re-announce, restart on the same address, silence, close, failed second handshake.
use super::{c11::ref_matches, common::*, netsim::*, replay_with, Prop};
use crate::{
    device::Type,
    mc::{sweep::*, util, CaseResult, Ctx, Fail, Tier},
    messages::{MESSAGE_TYPE_CLOSE, MESSAGE_TYPE_KEEPALIVE},
    payload::Packet,
    table::ClaimTable,
    types::{Address, Mode, Range},
    util::{MockTimeSource, MsgBuffer, Time},
};
use serde_json::Value;

pub fn prop() -> Prop {
    Prop {
        id: "C12",
        title: "Routes track peers: exactly the announced claims, nothing for the disconnected",
        level: "model_checking",
        rule: "complete enumeration of announcement sequences (length 3 quick / 4 thorough) for one peer over all 65 ordered lists without repetition of a 4-claim \
               universe plus 48 lists with one duplicated entry, a second peer with overlapping claims announcing at each position, time step 0/1 between steps and a \
               final expiry step, on a real ClaimTable; after every step: claims attributed to the peer = set(last announcement), lookups agree with the reference, no \
               cached decision survives its withdrawn claim. Node level: scenario x step-position enumeration with a scripted peer (re-announce, restart on the same \
               address with other claims, silence past the timeout, close, second handshake that never completes) against a real 2-node router mesh; every second: \
               next hops of claims and cache are peers, interface reads never hit 'Sending to node that is not a peer'. states = (sequence, step) observation points",
        run,
        replay,
    }
}

/// measured: table operations executed (announce, lookup, sweep, remove) and observation points (states checked)
pub static OPS: std::sync::atomic::AtomicU64 = std::sync::atomic::AtomicU64::new(0);
pub static POINTS: std::sync::atomic::AtomicU64 = std::sync::atomic::AtomicU64::new(0);
const PEER_TO: Time = 7;
const SWITCH_TO: Time = 3;

fn claim(i: usize) -> Range {
    // nested + disjoint: /8, /16 inside it, /24 inside that, and a disjoint /16
    let (b, p): ([u8; 4], u8) = [([10, 0, 0, 0], 8), ([10, 1, 0, 0], 16), ([10, 1, 1, 0], 24), ([172, 16, 0, 0], 16)][i];
    let mut data = [0u8; 16];
    data[..4].copy_from_slice(&b);
    Range { base: Address { data, len: 4 }, prefix_len: p }
}

fn probe_addr(i: usize) -> Address {
    let b: [u8; 4] = [[10, 9, 9, 9], [10, 1, 9, 9], [10, 1, 1, 9], [172, 16, 5, 5]][i];
    let mut data = [0u8; 16];
    data[..4].copy_from_slice(&b);
    Address { data, len: 4 }
}

/// All ordered lists without repetition (65) followed by lists with one duplicated entry.
pub fn lists() -> Vec<Vec<usize>> {
    let mut out: Vec<Vec<usize>> = vec![vec![]];
    fn rec(cur: &mut Vec<usize>, out: &mut Vec<Vec<usize>>) {
        for c in 0..4 {
            if !cur.contains(&c) {
                cur.push(c);
                out.push(cur.clone());
                rec(cur, out);
                cur.pop();
            }
        }
    }
    rec(&mut vec![], &mut out);
    let base: Vec<Vec<usize>> = out.iter().filter(|l| l.len() >= 1 && l.len() <= 2).cloned().collect();
    for l in base {
        for d in 0..l.len() {
            for pos in 0..=l.len() {
                let mut x = l.clone();
                x.insert(pos, l[d]);
                if !out.contains(&x) {
                    out.push(x);
                }
            }
        }
    }
    out
}

#[derive(Serialize, Deserialize, Clone, Debug)]
pub struct SeqCase {
    /// indices into `lists()`
    pub seq: Vec<usize>,
    /// at which step the second peer (claims /8 and /24) announces; 99 = never
    pub other_at: usize,
    /// seconds between steps
    pub dt: i64,
    /// switch timeout longer (10 s) than the peer timeout (7 s): cached decisions must still die with their claim
    #[serde(default)]
    pub long_cache: bool,
}

pub fn run_seq(c: &SeqCase) -> CaseResult {
    let all = lists();
    let p = addr_of(101);
    let q = addr_of(102);
    MockTimeSource::set_time(START_TIME);
    let mut now = START_TIME;
    let mut table: ClaimTable<MockTimeSource> = ClaimTable::new(if c.long_cache { 10 } else { SWITCH_TO as u32 }, PEER_TO as u32);
    let mut q_claims: Vec<usize> = vec![];
    let mut class = 0u64;
    for (step, li) in c.seq.iter().enumerate() {
        if c.other_at == step {
            table.set_claims(q, [claim(0), claim(2)].iter().cloned().collect());
            q_claims = vec![0, 2];
        }
        let list = &all[*li];
        table.set_claims(p, list.iter().map(|i| claim(*i)).collect());
        OPS.fetch_add(6, std::sync::atomic::Ordering::Relaxed); // 1 announcement + 4 lookups + 1 sweep per step
        POINTS.fetch_add(1, std::sync::atomic::Ordering::Relaxed);
        let want: std::collections::BTreeSet<usize> = list.iter().cloned().collect();
        // (1) claims attributed to p
        let got: std::collections::BTreeSet<usize> =
            table.verif_claims().iter().filter(|(peer, _, _)| *peer == p).map(|(_, r, _)| (0..4).find(|i| claim(*i) == *r).unwrap_or(9)).collect();
        if got != want {
            return Err(Fail::new("claims_differ", format!("after step {} (announce {:?}) the table attributes {:?} to the peer, expected {:?}", step, list, got, want))
                .with("shrinking", got.len() > want.len())
                .with("duplicate_entry", list.len() != want.len()));
        }
        // (1b) every announced claim lives exactly one peer timeout from this announcement
        for (peer, r, expiry) in table.verif_claims() {
            if peer == p && expiry != now + PEER_TO {
                return Err(Fail::new("wrong_claim_lifetime", format!("after step {} claim {} of the announcing peer expires at +{} s, expected +{} s (peer timeout)", step, r, expiry - now, PEER_TO)));
            }
        }
        // (2) no lookup resolves to a peer through a claim that peer does not (or no longer) announce; decisions cached
        // from still-announced claims may legitimately persist for the switch timeout (that part is C11's)
        for a in 0..4 {
            let addr = probe_addr(a);
            let covers = |set: &Vec<usize>| set.iter().any(|ci| {
                let r = claim(*ci);
                ref_matches(&r.base.data[..4], r.prefix_len, &addr.data[..4])
            });
            let p_set: Vec<usize> = want.iter().cloned().collect();
            let got = table.lookup(addr);
            let ok = match got {
                None => !covers(&p_set) && !covers(&q_claims),
                Some(g) if g == p => covers(&p_set),
                Some(g) if g == q => covers(&q_claims),
                Some(_) => false,
            };
            if !ok {
                return Err(Fail::new("stale_route", format!("after step {} (announce {:?}) lookup({}) = {:?} although that peer announces no claim containing it (or a claim exists and nothing was found)", step, list, addr, got))
                    .with("got_withdrawn_peer", got == Some(p)));
            }
            class = class * 3 + got.map(|g| if g == p { 1 } else { 2 }).unwrap_or(0);
        }
        now += c.dt;
        MockTimeSource::set_time(now);
        table.housekeep();
        class %= 1_000_003;
    }
    // (3) expiry: nothing of p survives the peer timeout without re-announcement
    now += PEER_TO + 1;
    MockTimeSource::set_time(now);
    table.housekeep();
    if table.verif_claims().iter().any(|(peer, _, _)| *peer == p) || table.verif_cache().iter().any(|(_, peer, _)| *peer == p) {
        return Err(Fail::new("not_expired", "claims or cached decisions of a silent peer survive the peer timeout"));
    }
    // (4) removal
    table.set_claims(p, [claim(0), claim(1)].iter().cloned().collect());
    table.lookup(probe_addr(1));
    table.remove_claims(p);
    if table.verif_claims().iter().any(|(peer, _, _)| *peer == p) || table.verif_cache().iter().any(|(_, peer, _)| *peer == p) {
        return Err(Fail::new("not_removed", "claims or cached decisions point at a removed peer"));
    }
    // (5) removal of a peer that announced nothing but from which addresses were learned (switch mode)
    table.cache(probe_addr(3), p);
    table.cache(probe_addr(0), q);
    table.remove_claims(p);
    if table.verif_cache().iter().any(|(_, peer, _)| *peer == p) {
        return Err(Fail::new("learned_not_removed", "a learned address still points at a removed peer that had no claims"));
    }
    if !table.verif_cache().iter().any(|(_, peer, _)| *peer == q) {
        return Err(Fail::new("learned_lost", "removing one peer dropped an address learned from another"));
    }
    Ok(class)
}

// ---------- node level ----------

#[derive(Serialize, Deserialize, Clone, Debug)]
pub struct NodeCase {
    /// "reannounce" | "restart" | "silence" | "close" | "failed_second_handshake" | "keepalive_only"
    pub scenario: String,
    /// seconds of normal operation before the scripted peer acts
    pub at: i64,
    /// index into a small menu of claim lists for the second announcement / the restarted peer
    pub variant: usize,
    /// everybody configured with `algorithms: [plain]` (unencrypted connections)
    #[serde(default)]
    pub plain: bool,
}

fn node_claims(v: usize) -> Vec<Range> {
    let menus: [&[usize]; 6] = [&[0, 1], &[1], &[], &[3], &[1, 0], &[2, 3]];
    menus[v % 6].iter().map(|i| claim(*i)).collect()
}

/// Invariant at node 0: every next hop in the table is a peer; packets to each probe address do not hit a non-peer.
fn node_invariant(net: &mut Net<Packet>, what: &str) -> Result<(), Fail> {
    let peers: Vec<_> = net.nodes[0].verif_peers().iter().map(|p| p.addr).collect();
    for (peer, r, _) in net.nodes[0].verif_table().verif_claims() {
        if !peers.contains(&peer) {
            return Err(Fail::new("claim_of_non_peer", format!("{}: claim {} points at {} which is not a peer", what, r, peer)));
        }
    }
    for (a, peer, _) in net.nodes[0].verif_table().verif_cache() {
        if !peers.contains(&peer) {
            return Err(Fail::new("cache_of_non_peer", format!("{}: cached address {} points at {} which is not a peer", what, a, peer)));
        }
    }
    for a in 0..4 {
        let dst = probe_addr(a);
        let pkt = ipv4_packet([10, 200, 0, 1], [dst.data[0], dst.data[1], dst.data[2], dst.data[3]], b"c12-probe");
        if let Err(e) = net.put_frame(0, pkt) {
            let msg = format!("{}", e);
            if msg.contains("not a peer") {
                return Err(Fail::new("non_peer_next_hop", format!("{}: interface read for {} selected a non-peer: {}", what, dst, msg)));
            }
        }
    }
    // datagrams for the scripted peer are consumed by the caller; drop what the probes produced
    Ok(())
}

pub fn run_node(c: &NodeCase) -> CaseResult {
    // node 0: the node under observation; node 1: an ordinary peer with its own claim; S: scripted peer at port 50
    let mut cfgs = vec![];
    for i in 0..2 {
        let mut cfg = base_config(Mode::Router, Type::Tun, 0, &[0]);
        cfg.claims = vec![format!("10.{}.0.0/16", 200 + i)];
        cfg.peer_timeout = 300;
        cfg.keepalive = Some(10);
        if c.plain {
            cfg.crypto.algorithms = vec!["plain".to_string()];
        }
        cfgs.push(cfg);
    }
    let mut net = Net::<Packet>::mesh(&cfgs, 2);
    let first = node_claims(0);
    let algos: &[&str] = if c.plain { &["plain"] } else { &[] };
    let mut s = Scripted::new_with_algorithms(50, 50, 0, &[0], &first, Some(300), algos);
    if !s.connect(&mut net, 0) {
        return Err(Fail::new("harness", "scripted peer could not connect"));
    }
    let s_addr = s.addr;
    let claims_of_s = |net: &Net<Packet>| -> Vec<Range> { net.nodes[0].verif_table().verif_claims().iter().filter(|x| x.0 == s_addr).map(|x| x.1).collect() };
    let same = |a: &Vec<Range>, b: &Vec<Range>| {
        let mut x: Vec<String> = a.iter().map(|r| format!("{}", r)).collect();
        let mut y: Vec<String> = b.iter().map(|r| format!("{}", r)).collect();
        x.sort();
        x.dedup();
        y.sort();
        y.dedup();
        x == y
    };
    if !same(&claims_of_s(&net), &first) {
        return Err(Fail::new("claims_differ", format!("after connect: {:?} vs announced {:?}", claims_of_s(&net), first)));
    }
    let mut second = |net: &mut Net<Packet>, s: &mut Scripted, keepalive: bool| -> Result<(), Fail> {
        net.tick();
        if !keepalive {
            // a silent peer neither sends nor answers
            net.queue.retain(|w| w.to != s.addr);
        }
        s.pump(net);
        net.deliver_all(256);
        s.pump(net);
        if keepalive {
            s.tick(net, 0);
            if (net.now - START_TIME) % 20 == 0 {
                s.send(net, 0, MESSAGE_TYPE_KEEPALIVE, &[]);
            }
        }
        node_invariant(net, &format!("t=+{}", net.now - START_TIME))?;
        if !keepalive {
            net.queue.retain(|w| w.to != s.addr);
        }
        s.pump(net);
        net.deliver_all(256);
        for i in 0..net.nodes.len() {
            net.pop_frames(i);
        }
        Ok(())
    };
    for _ in 0..c.at {
        second(&mut net, &mut s, true)?;
    }
    match c.scenario.as_str() {
        "reannounce" => {
            let next = node_claims(c.variant);
            let info = Scripted::info(s.node_id, &next, Some(300), s.addr);
            s.send_info(&mut net, 0, &info);
            if !same(&claims_of_s(&net), &next) {
                return Err(Fail::new("claims_differ", format!("after re-announcement: table has {:?}, peer announced {:?}", claims_of_s(&net), next)).with("scenario", c.scenario.clone()));
            }
            for _ in 0..70 {
                second(&mut net, &mut s, true)?;
            }
        }
        "restart" => {
            // a new process on the same address: new node id, other claims, fresh handshake
            let next = node_claims(c.variant);
            let mut s2 = Scripted::new_with_algorithms(50, 51, 0, &[0], &next, Some(300), algos);
            if !s2.connect(&mut net, 0) {
                return Err(Fail::new("restart_rejected", "restarted peer on the same address could not connect").with("scenario", c.scenario.clone()));
            }
            if !same(&claims_of_s(&net), &next) {
                return Err(Fail::new("claims_differ", format!("after restart: table has {:?}, new peer announced {:?}", claims_of_s(&net), next)).with("scenario", c.scenario.clone()));
            }
            for _ in 0..70 {
                second(&mut net, &mut s2, true)?;
            }
        }
        "silence" => {
            for _ in 0..310 {
                second(&mut net, &mut s, false)?;
            }
            // the silent peer is gone with its routes; the node re-dials (datagrams to S are simply not answered)
            net.queue.retain(|w| w.to != s_addr);
            if net.nodes[0].verif_is_connected(&s_addr) {
                return Err(Fail::new("silent_peer_kept", "peer silent for longer than the peer timeout is still connected"));
            }
            if !claims_of_s(&net).is_empty() {
                return Err(Fail::new("claim_of_non_peer", "claims of a timed-out peer remain"));
            }
        }
        "close" => {
            s.send(&mut net, 0, MESSAGE_TYPE_CLOSE, &[]);
            if net.nodes[0].verif_is_connected(&s_addr) {
                return Err(Fail::new("close_ignored", "peer that sent a close message is still connected"));
            }
            for _ in 0..10 {
                second(&mut net, &mut s, false)?;
                net.queue.retain(|w| w.to != s_addr);
            }
        }
        "failed_second_handshake" => {
            // a second handshake from the same address starts (genuine ping of a restarted process) and never completes
            let mut s2 = Scripted::new_with_algorithms(50, 52, 0, &[0], &node_claims(c.variant), Some(300), algos);
            s2.dial(&mut net, 0);
            net.queue.retain(|w| w.to != s_addr); // the pong goes nowhere
            // the old process is gone (it was replaced by the one that dialled), nobody answers from that address
            for _ in 0..200 {
                second(&mut net, &mut s, false)?;
            }
        }
        "keepalive_only" => {
            // healthy peer that only sends keepalives: its claims must stay while it is connected (they expire with the peer timeout if not re-announced)
            for _ in 0..50 {
                second(&mut net, &mut s, true)?;
            }
        }
        _ => panic!("scenario"),
    }
    Ok(1 + c.variant as u64)
}

pub fn run(ctx: &Ctx) {
    // "removed for any reason (timeout, ...) no ... learned address keeps pointing at it": a silent peer of a learning mesh whose
    // learned addresses are fresh far beyond the peer timeout (C15's scenario, run here under C12's name)
    let sl: Vec<super::c15::SilenceCase> = [0i64, 5, 41].iter().map(|t| super::c15::SilenceCase { from_second: *t, timeout: 120, victim_timeout: None }).collect();
    crate::mc::sweep::sweep_list(ctx, "timeout_learned_addresses", &sl, crate::mc::sweep::SweepOpts { chunk: 1, ..Default::default() }, super::c15::run_silence_learned);
    let n = lists().len() as u64;
    let k = ctx.tier.pick(3u32, 4u32);
    // quick: all sequences of 3 lists from the 65 repetition-free lists + all pairs over all lists; thorough: length 4
    let base = 65u64;
    let total = base.pow(k);
    let others: [usize; 3] = [99, 0, 1];
    sweep_range(
        ctx,
        "announcement_sequences",
        total * 3 * 2,
        SweepOpts { chunk: 2048, ..Default::default() },
        |i| {
            let mut x = i / 6;
            let mut seq = vec![];
            for _ in 0..k {
                seq.push((x % base) as usize);
                x /= base;
            }
            SeqCase { seq, other_at: others[((i / 2) % 3) as usize], dt: (i % 2) as i64, long_cache: (i / 6) % 2 == 1 }
        },
        run_seq,
    );
    // lists with duplicated entries: all pairs (any list, any list) + (dup, any, dup)
    let mut dups = vec![];
    for a in 0..n as usize {
        for b in 0..n as usize {
            if a >= 65 || b >= 65 {
                dups.push(SeqCase { seq: vec![a, b], other_at: 99, dt: 0, long_cache: false });
                dups.push(SeqCase { seq: vec![a, b, a], other_at: 1, dt: 1, long_cache: true });
            }
        }
    }
    sweep_list(ctx, "duplicate_entries", &dups, SweepOpts { chunk: 256, ..Default::default() }, run_seq);
    let mut nodes = vec![];
    for scenario in ["reannounce", "restart", "silence", "close", "failed_second_handshake", "keepalive_only"] {
        for at in [0i64, 1, 5, 61] {
            for variant in 0..6 {
                if ["silence", "close", "keepalive_only"].contains(&scenario) && variant > 0 {
                    continue;
                }
                nodes.push(NodeCase { scenario: scenario.to_string(), at, variant, plain: false });
                if at == 1 || at == 61 {
                    nodes.push(NodeCase { scenario: scenario.to_string(), at, variant, plain: true });
                }
            }
        }
    }
    sweep_list(ctx, "node_scenarios", &nodes, SweepOpts { chunk: 1, ..Default::default() }, run_node);
    {
        let mut fams = ctx.families.lock().unwrap();
        for f in fams.iter_mut() {
            if f.name == "announcement_sequences" {
                f.states = POINTS.load(std::sync::atomic::Ordering::Relaxed);
                f.transitions = OPS.load(std::sync::atomic::Ordering::Relaxed);
            }
        }
    }
    ctx.assume("time constants are scaled down in the table part (switch timeout 3 s, peer timeout 7 s); the node part uses the default peer timeout of 300 s");
    ctx.assume("claims are compared as sets: a duplicated entry in an announcement is one claim");
}

pub fn replay(family: &str, case: &Value) -> Option<CaseResult> {
    match family {
        "announcement_sequences" | "duplicate_entries" => replay_with::<SeqCase>(case, run_seq),
        "node_scenarios" => replay_with::<NodeCase>(case, run_node),
        "timeout_learned_addresses" => replay_with::<super::c15::SilenceCase>(case, super::c15::run_silence_learned),
        _ => None,
    }
}
