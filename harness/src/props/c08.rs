//! C08 No datagram from an outsider can crash a node.
//! E4: receiver states x structured datagram domain, each datagram handed to a REAL node through the event
//! loop's socket branch under panic capture; a rejected datagram must leave no state behind, cause no reply
//! and no interface write.
use super::{common::*, netsim::*, replay_with, Prop};
use crate::{
    device::Type,
    mc::{sweep::*, util, CaseResult, Ctx, Fail, Tier},
    payload::Frame,
    types::Mode,
};
use serde_json::Value;
use std::net::SocketAddr;

pub fn prop() -> Prop {
    Prop {
        id: "C08",
        title: "No datagram from an outsider can crash a node",
        level: "fault_enumeration",
        rule: "complete enumeration of the product {7 receiver states} x {source: unknown address, the peer's address} x datagram domain: every byte string of \
               length 0..=2; lengths 3..=80 x 15 structured first bytes x 4 bodies; 0xff + valid key-hash prefix + every tag x 13 extreme lengths, also at every \
               part position of genuine ping/pong/peng; every truncation and every length-field corruption of genuine handshake, sealed (data, node-info, \
               rotation) datagrams; sizes 1400/9000/65435; plus all sequences of <= 2 (3) recorded genuine handshake datagrams per state and source (crash freedom only). Each datagram \
               goes through the real socket event under panic capture and a deadline. non-trivial = datagram reached \
               a handshake or crypto object (source is pending/established, or carries the handshake marker)",
        run,
        replay,
    }
}

pub const STATES: [&str; 7] =
    ["unknown_sender", "pending_initiator", "pending_responder", "established_lingering", "established_settled", "established_plain", "closing"];

/// Builds victim V (node 0) and trusted peer B (node 1) in the given state; returns the net and genuine captured datagrams.
pub fn build_state(state: &str) -> Net<Frame> {
    let plain = state == "established_plain";
    let mut cfg = base_config(Mode::Switch, Type::Tap, 0, &[0]);
    if plain {
        cfg.crypto.algorithms = vec!["plain".to_string()];
    }
    let mut net = Net::<Frame>::new();
    net.capture = Some(vec![]);
    net.add_node(&cfg, false);
    net.add_node(&cfg, false);
    let (v, b) = (net.addrs[0], net.addrs[1]);
    match state {
        "unknown_sender" => {}
        "pending_initiator" => {
            net.connect(0, b); // ping is queued, never delivered
            net.queue.clear();
        }
        "pending_responder" => {
            net.connect(1, v);
            net.deliver_at(0); // ping reaches V, V answers pong and waits for peng
            net.queue.clear();
        }
        "established_lingering" => {
            net.connect(0, b); // V is the initiator and keeps its handshake object for 60 s
            net.deliver_all(64);
        }
        "established_settled" | "established_plain" => {
            net.connect(0, b);
            net.deliver_all(64);
            net.run(70);
        }
        "closing" => {
            net.connect(1, v); // V is the responder: its handshake object is in stage CLOSING until the next tick
            net.deliver_all(64);
        }
        _ => panic!("unknown state"),
    }
    net
}

/// Genuine datagrams for the mutation families: (name, bytes) from a complete run (handshake, node info, data, rotation).
pub fn genuine(plain: bool) -> Vec<(String, Vec<u8>)> {
    let mut cfg = base_config(Mode::Switch, Type::Tap, 0, &[0]);
    if plain {
        cfg.crypto.algorithms = vec!["plain".to_string()];
    }
    let mut net = Net::<Frame>::new();
    net.capture = Some(vec![]);
    net.add_node(&cfg, false);
    net.add_node(&cfg, false);
    let b = net.addrs[1];
    net.connect(0, b);
    net.deliver_all(64);
    net.run(3);
    let frame = eth_frame([2, 0, 0, 0, 0, 2], [2, 0, 0, 0, 0, 1], None, b"genuine-payload-0123456789abcdef");
    net.put_frame(0, frame).ok();
    net.deliver_all(64);
    net.run(130);
    let cap = net.capture.take().unwrap();
    let mut out = vec![];
    let mut n_init = 0;
    let mut n_sealed = 0;
    for w in &cap {
        if w.data.first() == Some(&0xff) {
            n_init += 1;
            if n_init <= 3 {
                out.push((["ping", "pong", "peng"][n_init - 1].to_string(), w.data.clone()));
            }
        } else {
            n_sealed += 1;
            if n_sealed <= 4 {
                out.push((format!("sealed{}", n_sealed), w.data.clone()));
            }
        }
    }
    if let Some(w) = cap.iter().rev().find(|w| w.data.first() != Some(&0xff)) {
        out.push(("sealed_late".to_string(), w.data.clone()));
    }
    out
}

#[derive(Serialize, Deserialize, Clone, Debug)]
pub struct Case {
    pub state: String,
    /// "unknown" or "peer"
    pub source: String,
    pub how: String,
    pub data: Vec<u8>,
}

fn source_addr(net: &Net<Frame>, source: &str) -> SocketAddr {
    if source == "peer" {
        net.addrs[1]
    } else {
        addr_of(999)
    }
}

/// One datagram against a prepared net; checks the oracle. Returns Ok(class).
pub fn shoot(net: &mut Net<Frame>, before: &str, source: &str, data: &[u8], plain_peer: bool) -> Result<u64, Fail> {
    let from = source_addr(net, source);
    let r = util::catch(|| net.inject(0, from, data.to_vec()));
    if let Err(p) = r {
        return Err(Fail::from_panic(&p).with("source", source).with("len_class", len_class(data.len())).with("marker", data.first() == Some(&0xff)));
    }
    let sent = net.queue.len();
    let written = net.pop_frames(0).len();
    let after = net.snapshot(0);
    if plain_peer {
        // both ends enabled 'plain': nothing is verified on this connection, so a datagram with the peer's source
        // address is indistinguishable from the peer's own; only crash freedom is demanded
        net.queue.clear();
        return Ok(3);
    }
    if sent > 0 {
        net.queue.clear();
        return Err(Fail::new("reply_sent", format!("node answered an unauthenticated datagram with {} datagram(s)", sent)).with("source", source));
    }
    if written > 0 {
        return Err(Fail::new("interface_write", "unauthenticated datagram caused an interface write").with("source", source));
    }
    if after != before {
        return Err(Fail::new("state_left_behind", format!("rejected datagram changed the node's state:\n--- before\n{}\n--- after\n{}", before, after)).with("source", source));
    }
    Ok(if data.first() == Some(&0xff) { 2 } else { 1 })
}

fn len_class(n: usize) -> &'static str {
    match n {
        0 => "0",
        1..=23 => "1..23",
        _ => ">=24",
    }
}

pub fn run_case(c: &Case) -> CaseResult {
    let mut net = build_state(&c.state);
    let before = net.snapshot(0);
    shoot(&mut net, &before, &c.source, &c.data, c.state == "established_plain" && c.source == "peer").map_err(|f| f.with("state", c.state.clone()))
}

/// A batch: all datagrams of one (state, source, family chunk) against one prepared net (the oracle demands an
/// unchanged state after every datagram, so the net can be reused; it is rebuilt after a violation).
#[derive(Serialize, Deserialize, Clone, Debug)]
pub struct Batch {
    pub state: String,
    pub source: String,
    pub family: String,
    pub chunk: usize,
}

const FIRST_BYTES: [u8; 15] = [0xff, 0, 1, 2, 3, 4, 5, 6, 7, 0x10, 0x11, 0x7f, 0x80, 0xfe, 0xfd];

fn datagrams(family: &str, chunk: usize, state: &str, tier: Tier) -> Vec<(String, Vec<u8>)> {
    let mut v: Vec<(String, Vec<u8>)> = vec![];
    let gen = genuine(state == "established_plain");
    match family {
        "short" => {
            // all strings of length 0..=2, split in 16 chunks by first byte high nibble
            if chunk == 0 {
                v.push(("empty".into(), vec![]));
            }
            for a in 0..=255u8 {
                if (a >> 4) as usize != chunk {
                    continue;
                }
                v.push((format!("[{}]", a), vec![a]));
                for b in 0..=255u8 {
                    v.push((format!("[{},{}]", a, b), vec![a, b]));
                }
            }
        }
        "structured" => {
            let fb = FIRST_BYTES[chunk];
            for len in 3..=80usize {
                for body in 0..4 {
                    let mut d = vec![fb];
                    match body {
                        0 => d.extend(std::iter::repeat(0u8).take(len - 1)),
                        1 => d.extend(std::iter::repeat(0xffu8).take(len - 1)),
                        2 => d.extend((1..len).map(|i| i as u8)),
                        _ => {
                            let g = &gen[(len + chunk) % gen.len()].1;
                            d.extend(g.iter().skip(1).cloned().chain(std::iter::repeat(0x55)).take(len - 1));
                        }
                    }
                    v.push((format!("first={:#x} len={} body={}", fb, len, body), d));
                }
            }
            for size in [1400usize, 9000, 65435] {
                let mut d = vec![fb; size];
                for (i, b) in d.iter_mut().enumerate().skip(1) {
                    *b = (i % 251) as u8;
                }
                v.push((format!("first={:#x} size={}", fb, size), d));
            }
        }
        "parts" => {
            // 0xff + valid key-hash prefix + tag x extreme lengths, at every part position of genuine ping/pong/peng
            let msg = &gen.iter().filter(|g| ["ping", "pong", "peng"].contains(&g.0.as_str())).nth(chunk % 3).map(|g| g.1.clone()).unwrap_or_default();
            if msg.len() < 10 {
                return v;
            }
            // datagrams that fill the receive buffer (65435 bytes behind its headroom) almost or exactly: a valid key hint, one huge
            // unknown part (or a huge payload / key part), the end marker and a signature length whose bytes would lie behind
            // the end of the buffer
            for total in [65435usize, 65434, 65400, 65372, 65371, 65370, 65300, 65181, 65180] {
                for tag in [9u8, 5, 3] {
                    for siglen in [64u8, 255, 1] {
                        for tail in [0usize, 1, 63, 64] {
                            if 13 + tail + 2 > total {
                                continue;
                            }
                            let body = total - 9 - 3 - 2 - tail;
                            let mut d = msg[..9].to_vec();
                            d.push(tag);
                            d.push((body >> 8) as u8);
                            d.push(body as u8);
                            d.extend((0..body).map(|i| (i % 253) as u8));
                            d.push(0);
                            d.push(siglen);
                            d.extend(std::iter::repeat(0x33u8).take(tail));
                            v.push((format!("buffer-filling total={} tag={} siglen={} tail={}", total, tag, siglen, tail), d));
                        }
                    }
                }
            }
            let lens: &[usize] = &[0, 1, 2, 19, 20, 21, 32, 33, 96, 97, 255, 256, 65535];
            // part positions
            let mut positions = vec![];
            let mut pos = 9;
            while pos + 3 <= msg.len() && msg[pos] != 0 {
                positions.push(pos);
                pos += 3 + (((msg[pos + 1] as usize) << 8) | msg[pos + 2] as usize);
            }
            positions.push(pos.min(msg.len() - 1));
            let tags: Vec<u8> = if tier == Tier::Quick { (0..=8).chain([0x7f, 0x80, 0xfe, 0xff]).collect() } else { (0..=255).collect() };
            for &p in &positions {
                for &tag in &tags {
                    for &l in lens {
                        // (i) truncated right behind the forged header, (ii) rest of the message kept
                        let mut d = msg[..p].to_vec();
                        d.extend_from_slice(&[tag, (l >> 8) as u8, l as u8]);
                        v.push((format!("part@{} tag={} len={} cut", p, tag, l), d.clone()));
                        d.extend_from_slice(&msg[(p + 3).min(msg.len())..]);
                        v.push((format!("part@{} tag={} len={} kept", p, tag, l), d));
                    }
                }
            }
        }
        "truncations" => {
            let (name, g) = &gen[chunk % gen.len()];
            for cut in 0..g.len() {
                v.push((format!("{} truncated to {}", name, cut), g[..cut].to_vec()));
            }
            // length-field corruptions of handshake messages
            if g.first() == Some(&0xff) {
                let mut pos = 9;
                while pos + 3 <= g.len() && g[pos] != 0 {
                    let len = ((g[pos + 1] as usize) << 8) | g[pos + 2] as usize;
                    for nl in [0usize, 1, len.saturating_sub(1), len + 1, 255, 256, 65535] {
                        let mut d = g.clone();
                        d[pos + 1] = (nl >> 8) as u8;
                        d[pos + 2] = nl as u8;
                        v.push((format!("{} part@{} len:={}", name, pos, nl), d));
                    }
                    pos += 3 + len;
                }
                if pos + 1 < g.len() {
                    for sl in [0u8, 1, 63, 65, 255] {
                        let mut d = g.clone();
                        d[pos + 1] = sl;
                        v.push((format!("{} siglen:={}", name, sl), d));
                    }
                }
            }
        }
        _ => {}
    }
    // A datagram that starts with a complete genuine handshake message IS that message (bytes behind the signature are
    // ignored): a verbatim replay of something a trusted key signed, which is C09's domain, not an outsider's fabrication.
    let signed: Vec<&Vec<u8>> = gen.iter().filter(|g| g.1.first() == Some(&0xff)).map(|g| &g.1).collect();
    // (the receive buffer is zero-filled behind the datagram, so a truncation whose missing bytes are all zero is the
    // genuine message as well)
    v.retain(|(_, d)| {
        !signed.iter().any(|g| {
            let n = d.len().min(g.len());
            d[..n] == g[..n] && g[n..].iter().all(|b| *b == 0)
        })
    });
    v
}

pub fn run_batch(b: &Batch, tier: Tier, ctx: Option<&Ctx>) -> CaseResult {
    let list = datagrams(&b.family, b.chunk, &b.state, tier);
    let mut net = build_state(&b.state);
    let mut before = net.snapshot(0);
    let mut reached = 0u64;
    let mut first_fail: Option<Fail> = None;
    for (how, data) in &list {
        match shoot(&mut net, &before, &b.source, data, b.state == "established_plain" && b.source == "peer") {
            Ok(3) => {
                // plain connection: state may legitimately have changed (learning); refresh the baseline
                before = net.snapshot(0);
                reached += 1;
            }
            Ok(c) => {
                if c == 2 || b.source == "peer" {
                    reached += 1;
                }
            }
            Err(f) => {
                let f = f.with("state", b.state.clone());
                let case = Case { state: b.state.clone(), source: b.source.clone(), how: how.clone(), data: data.clone() };
                if let Some(ctx) = ctx {
                    ctx.add_violation("datagram", serde_json::to_value(&case).unwrap(), f.clone());
                }
                if first_fail.is_none() {
                    first_fail = Some(f);
                }
                net = build_state(&b.state);
                before = net.snapshot(0);
            }
        }
    }
    if ctx.is_none() {
        if let Some(f) = first_fail {
            return Err(f);
        }
    }
    Ok(((list.len() as u64) << 20) | reached)
}

// ---------- replays of genuinely signed handshake datagrams: crash freedom for SEQUENCES ----------

/// An outsider without any key can still record handshake datagrams that trusted nodes exchanged (the victim's own
/// exchange, or one between two other nodes with the same trusted keys) and send them again, as often as it likes.
/// Such a datagram is not "rejected" in general (what it may and may not do to connections is C09's subject), so the
/// unchanged-state oracle does not apply and sequences are not covered by closure: all sequences up to the bound are run,
/// each followed by three housekeeping rounds, and only crash freedom is demanded.
#[derive(Serialize, Deserialize, Clone, Debug)]
pub struct ReplaySeq {
    pub state: String,
    pub source: String,
    /// indices into the message menu: 0..3 = ping/pong/peng of a foreign exchange, 3.. = handshake datagrams of the victim's own
    pub seq: Vec<usize>,
}

pub fn run_replays(c: &ReplaySeq) -> CaseResult {
    let mut net = build_state(&c.state);
    let mut menu: Vec<Vec<u8>> = genuine(c.state == "established_plain").into_iter().filter(|g| ["ping", "pong", "peng"].contains(&g.0.as_str())).map(|g| g.1).collect();
    if let Some(cap) = net.capture.as_ref() {
        menu.extend(cap.iter().filter(|w| w.data.first() == Some(&0xff)).take(3).map(|w| w.data.clone()));
    }
    let from = source_addr(&net, &c.source);
    let mut class = 0u64;
    for (step, k) in c.seq.iter().enumerate() {
        let Some(data) = menu.get(*k) else { return Ok(0) };
        let r = util::catch(|| net.inject(0, from, data.clone()));
        if let Err(p) = r {
            return Err(Fail::from_panic(&p).with("source", c.source.clone()).with("state", c.state.clone()).with("family", "signed_replays").with("step", step as u64));
        }
        class = class * 7 + net.queue.len().min(6) as u64;
        net.queue.clear();
        net.pop_frames(0);
    }
    for _ in 0..3 {
        let r = util::catch(|| {
            net.tick();
            net.queue.clear();
        });
        if let Err(p) = r {
            return Err(Fail::from_panic(&p).with("source", c.source.clone()).with("state", c.state.clone()).with("family", "signed_replays").with("step", "housekeeping"));
        }
    }
    Ok(1 + class)
}

pub fn replay_seqs(tier: Tier) -> Vec<ReplaySeq> {
    let mut v = vec![];
    let maxlen = tier.pick(2, 3);
    for state in STATES {
        for source in ["unknown", "peer"] {
            let mut seqs: Vec<Vec<usize>> = vec![vec![]];
            let mut frontier: Vec<Vec<usize>> = vec![vec![]];
            for _ in 0..maxlen {
                let mut next = vec![];
                for f in &frontier {
                    for k in 0..6 {
                        let mut g = f.clone();
                        g.push(k);
                        next.push(g);
                    }
                }
                seqs.extend(next.iter().cloned());
                frontier = next;
            }
            for seq in seqs.into_iter().filter(|q| !q.is_empty()) {
                v.push(ReplaySeq { state: state.into(), source: source.into(), seq });
            }
        }
    }
    v
}

pub fn run(ctx: &Ctx) {
    sweep_list(ctx, "signed_replays", &replay_seqs(ctx.tier), SweepOpts { chunk: 8, deadline_secs: Some(60), ..Default::default() }, run_replays);
    let mut batches = vec![];
    for state in STATES {
        for source in ["unknown", "peer"] {
            for chunk in 0..16 {
                batches.push(Batch { state: state.into(), source: source.into(), family: "short".into(), chunk });
            }
            for chunk in 0..FIRST_BYTES.len() {
                batches.push(Batch { state: state.into(), source: source.into(), family: "structured".into(), chunk });
            }
            for chunk in 0..3 {
                batches.push(Batch { state: state.into(), source: source.into(), family: "parts".into(), chunk });
            }
            for chunk in 0..8 {
                batches.push(Batch { state: state.into(), source: source.into(), family: "truncations".into(), chunk });
            }
        }
    }
    let tier = ctx.tier;
    let st = sweep_list(ctx, "batches", &batches, SweepOpts { chunk: 1, deadline_secs: Some(240), ..Default::default() }, |b| run_batch(b, tier, Some(ctx)));
    // account for the individual datagrams (the batch is only the execution vehicle)
    {
        let total: u64 = batches.iter().map(|b| datagrams(&b.family, b.chunk, &b.state, tier).len() as u64).sum();
        let mut fams = ctx.families.lock().unwrap();
        if let Some(f) = fams.iter_mut().find(|f| f.name == "batches") {
            f.extra.insert("datagrams".into(), serde_json::json!(total));
            f.extra.insert("batches".into(), serde_json::json!(st.evaluations));
            f.evaluations = total;
            // non-trivial: datagrams from the peer's address or carrying the handshake marker (they reach a crypto object)
            let nt: u64 = batches
                .iter()
                .map(|b| {
                    let l = datagrams(&b.family, b.chunk, &b.state, tier);
                    if b.source == "peer" {
                        l.len() as u64
                    } else {
                        l.iter().filter(|d| d.1.first() == Some(&0xff)).count() as u64
                    }
                })
                .sum();
            f.nontrivial = nt;
        }
    }
    ctx.assume("sequences: the oracle demands an unchanged state after every rejected datagram, so closure under one step from each base state implies closure under arbitrary sequences of such datagrams");
    ctx.assume("datagrams above 65435 bytes are not produced (the receive buffer leaves 65435 bytes after its headroom; a real socket truncates, the mock would index out of range)");
}

pub fn replay(family: &str, case: &Value) -> Option<CaseResult> {
    match family {
        "datagram" => replay_with::<Case>(case, run_case),
        "signed_replays" => replay_with::<ReplaySeq>(case, run_replays),
        "batches" => replay_with::<Batch>(case, |b| run_batch(b, Tier::Thorough, None)),
        _ => None,
    }
}
