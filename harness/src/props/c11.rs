//! C11 Routing follows the most specific live claim.
//! E3: Range::matches against a bit-by-bit reference over complete small universes; E1: explicit-state search over a REAL
//! ClaimTable (announce / withdraw / disconnect / lookup / time) against a history-based reference; node level: unknown
//! destinations are dropped and counted (router) or sent to all peers (switch, hub).
use super::{common::*, netsim::*, replay_with, Prop};
use crate::{
    device::Type,
    mc::{
        explore::{self, ExploreOpts, Model},
        sweep::*,
        CaseResult, Ctx, Fail, Tier,
    },
    payload::{Frame, Packet},
    table::ClaimTable,
    types::{Address, Mode, Range},
    util::{MockTimeSource, Time},
};
use serde_json::Value;
use std::{net::SocketAddr, time::Duration};

pub fn prop() -> Prop {
    Prop {
        id: "C11",
        title: "Routing follows the most specific live claim",
        level: "model_checking",
        rule: "explicit-state BFS by history replay over a real ClaimTable per address family (IPv4, IPv6, MAC+VLAN): alphabet Announce(peer, one of 6 claim subsets incl. \
               empty), Disconnect(peer), Learn(2 addresses x peer), Lookup(4 addresses hitting every nesting level and none), Advance(0/1/switch timeout/peer timeout)+sweep, AdvanceNoSweep(1); \
               every lookup result must be in the allowed set of a history-based reference (most specific live claim, one sweep of slack; or a still-valid earlier \
               decision); canonical state = table dump with relative expiries + reference history ages. Prefix matching: all 256 bases x prefixes 0..=20 x all 256 \
               addresses (8-bit universe), 16-bit universe (boundary addresses quick / all thorough), one-bit-difference addresses for 4/6/8/16-byte ranges x \
               prefixes 0..=255. Plus a 7-event narrow alphabet to depth 11 / 16 and a foreign-family lookup address. Node level: unknown destination in all 8 mode x device combinations; learned decisions end with a timed-out peer. distinct_nontrivial = canonical states + matching cases",
        run,
        replay,
    }
}

// ---------- prefix matching ----------

pub fn ref_matches(base: &[u8], prefix: u8, addr: &[u8]) -> bool {
    if base.len() != addr.len() {
        return false;
    }
    if prefix as usize > base.len() * 8 {
        return false; // an over-long prefix contains nothing
    }
    for bit in 0..prefix as usize {
        let (byte, shift) = (bit / 8, 7 - bit % 8);
        if (base[byte] >> shift) & 1 != (addr[byte] >> shift) & 1 {
            return false;
        }
    }
    true
}

fn mk_addr(bytes: &[u8]) -> Address {
    let mut data = [0u8; 16];
    data[..bytes.len()].copy_from_slice(bytes);
    Address { data, len: bytes.len() as u8 }
}

#[derive(Serialize, Deserialize, Clone, Debug)]
pub struct MatchBlock {
    /// address length in bytes
    pub len: usize,
    pub base: Vec<u8>,
    /// "all" (whole universe), "boundary", "onebit"
    pub addrs: String,
    pub max_prefix: u16,
}

pub fn run_match_block(b: &MatchBlock) -> CaseResult {
    let mut n = 0u64;
    let mut addrs: Vec<Vec<u8>> = vec![];
    match b.addrs.as_str() {
        "all" => {
            if b.len == 1 {
                for a in 0..=255u8 {
                    addrs.push(vec![a]);
                }
            } else {
                for a in 0..=0xffffu32 {
                    addrs.push(vec![(a >> 8) as u8, a as u8]);
                }
            }
        }
        "boundary" => {
            addrs.push(b.base.clone());
            for bit in 0..b.len * 8 {
                let mut a = b.base.clone();
                a[bit / 8] ^= 0x80 >> (bit % 8);
                addrs.push(a);
            }
            addrs.push(vec![0; b.len]);
            addrs.push(vec![0xff; b.len]);
            let v = ((b.base[0] as u32) << 8) | b.base.get(1).cloned().unwrap_or(0) as u32;
            for d in [v.wrapping_add(1) & 0xffff, v.wrapping_sub(1) & 0xffff] {
                let mut a = b.base.clone();
                a[0] = (d >> 8) as u8;
                if b.len > 1 {
                    a[1] = d as u8;
                }
                addrs.push(a);
            }
        }
        _ => {
            addrs.push(b.base.clone());
            for bit in 0..b.len * 8 {
                let mut a = b.base.clone();
                a[bit / 8] ^= 0x80 >> (bit % 8);
                addrs.push(a);
            }
            // length mismatch
            if b.len > 1 {
                addrs.push(b.base[..b.len - 1].to_vec());
            }
            let mut longer = b.base.clone();
            longer.push(0);
            if longer.len() <= 16 {
                addrs.push(longer);
            }
        }
    }
    for prefix in 0..=b.max_prefix {
        let r = Range { base: mk_addr(&b.base), prefix_len: prefix as u8 };
        for a in &addrs {
            let got = r.matches(mk_addr(a));
            let want = ref_matches(&b.base, prefix as u8, a);
            n += 1;
            if got != want {
                return Err(Fail::new("match_mismatch", format!("range {:?}/{} matches {:?}: got {}, reference {}", b.base, prefix, a, got, want))
                    .with("addr_len", b.len as u64)
                    .with("prefix_over_127", prefix > 127));
            }
        }
    }
    Ok(n)
}

// ---------- table model ----------

pub const SWITCH_TO: Time = 3;
pub const PEER_TO: Time = 7;

#[derive(Clone, Debug, Serialize, Deserialize, PartialEq)]
pub enum Ev {
    Announce(usize, usize),
    Disconnect(usize),
    Lookup(usize),
    Advance(i64),
    AdvanceNoSweep,
    /// a decision learned from traffic (switch mode): address index, peer
    Learn(usize, usize),
}

pub fn peer_addr(p: usize) -> SocketAddr {
    addr_of(100 + p as u16)
}

/// Universe per family: 6 ranges (nested /0 ... /full, one overlapping), 4 lookup addresses and one address of ANOTHER family
/// (no range of this family contains it, not even the /0 one).
pub fn universe(family: &str) -> (Vec<Range>, Vec<Address>) {
    let mk = |bytes: &[u8], prefix: u8| Range { base: mk_addr(bytes), prefix_len: prefix };
    match family {
        "ipv4" => (
            vec![mk(&[0, 0, 0, 0], 0), mk(&[10, 0, 0, 0], 8), mk(&[10, 1, 0, 0], 16), mk(&[10, 1, 1, 0], 24), mk(&[10, 1, 1, 1], 32), mk(&[10, 0, 0, 0], 15)],
            vec![mk_addr(&[10, 1, 1, 1]), mk_addr(&[10, 1, 2, 9]), mk_addr(&[10, 9, 9, 9]), mk_addr(&[192, 168, 0, 1]), mk_addr(&[0xff, 2, 0, 0, 0, 0, 0, 0, 0, 0, 0, 0, 0, 0, 0, 2])],
        ),
        "ipv6" => {
            let b = |x: &[u8]| {
                let mut v = [0u8; 16];
                v[..x.len()].copy_from_slice(x);
                v
            };
            (
                vec![
                    mk(&b(&[]), 0),
                    mk(&b(&[0xfd]), 8),
                    mk(&b(&[0xfd, 0, 0, 1]), 32),
                    mk(&b(&[0xfd, 0, 0, 1, 0, 0, 0, 5]), 64),
                    mk(&b(&[0xfd, 0, 0, 1, 0, 0, 0, 5, 0, 0, 0, 0, 0, 0, 0, 9]), 128),
                    mk(&b(&[0xfd, 0, 0, 0]), 31),
                ],
                vec![
                    mk_addr(&b(&[0xfd, 0, 0, 1, 0, 0, 0, 5, 0, 0, 0, 0, 0, 0, 0, 9])),
                    mk_addr(&b(&[0xfd, 0, 0, 1, 0, 0, 0, 5, 1])),
                    mk_addr(&b(&[0xfd, 7])),
                    mk_addr(&b(&[0x20, 1])),
                    mk_addr(&[8, 8, 8, 8]),
                ],
            )
        }
        _ => (
            // MAC with 2-byte VLAN prefix (8-byte addresses)
            vec![
                mk(&[0, 0, 0, 0, 0, 0, 0, 0], 0),
                mk(&[0, 5, 0, 0, 0, 0, 0, 0], 16),
                mk(&[0, 5, 2, 0, 0, 0, 0, 0], 24),
                mk(&[0, 5, 2, 0, 0, 0, 0, 0], 40),
                mk(&[0, 5, 2, 0, 0, 0, 0, 7], 64),
                mk(&[0, 4, 0, 0, 0, 0, 0, 0], 15),
            ],
            vec![mk_addr(&[0, 5, 2, 0, 0, 0, 0, 7]), mk_addr(&[0, 5, 2, 0, 0, 9, 9, 9]), mk_addr(&[0, 5, 7, 7, 7, 7, 7, 7]), mk_addr(&[0, 9, 2, 0, 0, 0, 0, 7]), mk_addr(&[2, 0, 0, 0, 0, 7])],
        ),
    }
}

/// claim subsets an announcement can carry (indices into the universe)
pub const SUBSETS: [&[usize]; 6] = [&[], &[1], &[2, 3], &[0, 4], &[5, 1], &[1, 2, 3, 4]];

/// `claim` of a decision that was learned from traffic instead of derived from a claim
const LEARNED: usize = usize::MAX;

#[derive(Clone, Debug)]
struct Decision {
    addr: usize,
    peer: usize,
    claim: usize,
    at: Time,
}

pub struct Sys {
    table: ClaimTable<MockTimeSource>,
    now: Time,
    /// per peer: last announcement (claim indices) and its time; None = never announced or disconnected
    announced: [Option<(Vec<usize>, Time)>; 3],
    /// time of the last disconnect / shrinking re-announcement per peer (cached decisions of that peer made before are void)
    cleared: [Time; 3],
    decisions: Vec<Decision>,
    last_sweep: Time,
    ranges: Vec<Range>,
    addrs: Vec<Address>,
}

pub struct M {
    pub family: &'static str,
    /// small alphabet (one address, a wide claim of peer 0, a narrower one of peer 1, one-second steps, learning) for deep
    /// schedules: refreshes, expiry under traffic, a better claim appearing while a decision is cached
    pub narrow: bool,
}

impl M {
    fn live_strict(&self, s: &Sys, p: usize, c: usize) -> bool {
        match &s.announced[p] {
            Some((set, t)) => set.contains(&c) && s.now <= *t + PEER_TO,
            None => false,
        }
    }
    /// expired by time but not yet swept
    fn slack(&self, s: &Sys, p: usize, c: usize) -> bool {
        match &s.announced[p] {
            Some((set, t)) => set.contains(&c) && s.now > *t + PEER_TO && *t + PEER_TO >= s.last_sweep,
            None => false,
        }
    }

    fn allowed(&self, s: &Sys, a: usize) -> (Vec<Option<usize>>, String) {
        let addr = s.addrs[a];
        let mut cands: Vec<(usize, usize, bool)> = vec![]; // (peer, claim, strict)
        for p in 0..3 {
            for c in 0..s.ranges.len() {
                let r = &s.ranges[c];
                let contains = ref_matches(&r.base.data[..r.base.len as usize], r.prefix_len, &addr.data[..addr.len as usize]);
                if !contains {
                    continue;
                }
                if self.live_strict(s, p, c) {
                    cands.push((p, c, true));
                } else if self.slack(s, p, c) {
                    cands.push((p, c, false));
                }
            }
        }
        let best_strict = cands.iter().filter(|x| x.2).map(|x| s.ranges[x.1].prefix_len as i32).max().unwrap_or(-1);
        let mut out: Vec<Option<usize>> = vec![];
        for (p, c, _) in &cands {
            if s.ranges[*c].prefix_len as i32 >= best_strict && !out.contains(&Some(*p)) {
                out.push(Some(*p));
            }
        }
        if best_strict < 0 {
            out.push(None);
        }
        // still-valid earlier decisions
        for d in &s.decisions {
            if d.addr != a {
                continue;
            }
            let within = s.now <= d.at + SWITCH_TO || d.at + SWITCH_TO >= s.last_sweep; // one sweep of slack
            let claim_ok = d.claim == LEARNED || self.live_strict(s, d.peer, d.claim) || self.slack(s, d.peer, d.claim);
            // (decisions made before a withdrawal / disconnect of their peer were deleted from the list at that event)
            if within && claim_ok && !out.contains(&Some(d.peer)) {
                out.push(Some(d.peer));
            }
        }
        (out, format!("candidates {:?} best_strict {}", cands, best_strict))
    }
}

impl Model for M {
    type Ev = Ev;
    type Sys = Sys;

    fn init(&self) -> Sys {
        MockTimeSource::set_time(START_TIME);
        let (ranges, addrs) = universe(self.family);
        Sys {
            table: ClaimTable::new(SWITCH_TO as u32, PEER_TO as u32),
            now: START_TIME,
            announced: [None, None, None],
            cleared: [0; 3],
            decisions: vec![],
            last_sweep: START_TIME,
            ranges,
            addrs,
        }
    }

    fn enabled(&self, s: &Sys, _hist: &[Ev]) -> Vec<Ev> {
        if self.narrow {
            return vec![Ev::Lookup(0), Ev::Advance(1), Ev::Announce(0, 1), Ev::Announce(1, 2), Ev::Announce(1, 0), Ev::Learn(0, 2), Ev::Disconnect(2)];
        }
        let mut v = vec![];
        for a in 0..s.addrs.len() {
            v.push(Ev::Lookup(a));
        }
        for p in 0..3 {
            for sub in 0..SUBSETS.len() {
                v.push(Ev::Announce(p, sub));
            }
        }
        for dt in [1, 0, SWITCH_TO, PEER_TO] {
            v.push(Ev::Advance(dt));
        }
        v.push(Ev::AdvanceNoSweep);
        for p in 0..3 {
            v.push(Ev::Disconnect(p));
        }
        for a in 0..2 {
            for p in 0..3 {
                v.push(Ev::Learn(a, p));
            }
        }
        v
    }

    fn apply(&self, s: &mut Sys, ev: &Ev) -> Result<(), Fail> {
        MockTimeSource::set_time(s.now);
        match ev {
            Ev::Announce(p, sub) => {
                let set: Vec<usize> = SUBSETS[*sub].to_vec();
                let list = set.iter().map(|c| s.ranges[*c]).collect();
                s.table.set_claims(peer_addr(*p), list);
                // a re-announcement that drops a claim voids decisions cached from the peer (the statement: dropped ones
                // disappear at once together with decisions cached from them) - conservatively: from any claim of that peer;
                // a decision LEARNED from the peer's traffic comes from no claim and stays allowed while the peer lives
                if let Some((old, _)) = &s.announced[*p] {
                    if old.iter().any(|c| !set.contains(c)) {
                        s.cleared[*p] = s.now;
                        s.decisions.retain(|d| d.peer != *p || d.claim == LEARNED || set.contains(&d.claim));
                    }
                }
                s.announced[*p] = Some((set, s.now));
                s.last_sweep = s.now;
            }
            Ev::Disconnect(p) => {
                s.table.remove_claims(peer_addr(*p));
                s.announced[*p] = None;
                s.cleared[*p] = s.now;
                s.decisions.retain(|d| d.peer != *p);
                s.last_sweep = s.now;
            }
            Ev::Lookup(a) => {
                let (allowed, why) = self.allowed(s, *a);
                let got = s.table.lookup(s.addrs[*a]);
                let got_p = match got {
                    None => None,
                    Some(addr) => match (0..3).find(|p| peer_addr(*p) == addr) {
                        Some(p) => Some(p),
                        None => return Err(Fail::new("unknown_peer", format!("lookup returned {}", addr))),
                    },
                };
                if !allowed.contains(&got_p) {
                    return Err(Fail::new(
                        "wrong_next_hop",
                        format!("lookup({}) returned peer {:?}, allowed {:?} ({}); announcements {:?} now=+{}", s.addrs[*a], got_p, allowed, why, s.announced, s.now - START_TIME),
                    )
                    .with("family", self.family)
                    .with("got_none", got_p.is_none()));
                }
                if let Some(p) = got_p {
                    // originating claim: the most specific claim of that peer containing the address (live or slack)
                    let addr = s.addrs[*a];
                    let claim = (0..s.ranges.len())
                        .filter(|c| {
                            let r = &s.ranges[*c];
                            ref_matches(&r.base.data[..r.base.len as usize], r.prefix_len, &addr.data[..addr.len as usize])
                                && (self.live_strict(s, p, *c) || self.slack(s, p, *c))
                        })
                        .max_by_key(|c| s.ranges[*c].prefix_len);
                    if let Some(claim) = claim {
                        // Is p what a fresh computation yields right now (a most specific strictly live claim)? Then the table may
                        // just have computed it anew (its earlier entry can have ended with the claim's previous life): the
                        // decision's lifetime starts now. Otherwise it can only be an earlier decision, which keeps its start.
                        let best_strict = (0..3)
                            .flat_map(|q| (0..s.ranges.len()).map(move |c| (q, c)))
                            .filter(|(q, c)| {
                                let r = &s.ranges[*c];
                                ref_matches(&r.base.data[..r.base.len as usize], r.prefix_len, &addr.data[..addr.len as usize]) && self.live_strict(s, *q, *c)
                            })
                            .map(|(_, c)| s.ranges[c].prefix_len)
                            .max();
                        let fresh = self.live_strict(s, p, claim) && Some(s.ranges[claim].prefix_len) == best_strict;
                        if fresh {
                            s.decisions.retain(|d| !(d.addr == *a && d.peer == p && d.claim != LEARNED));
                            s.decisions.push(Decision { addr: *a, peer: p, claim, at: s.now });
                        } else if !s.decisions.iter().any(|d| d.addr == *a && d.peer == p && d.at + SWITCH_TO >= s.now) {
                            s.decisions.push(Decision { addr: *a, peer: p, claim, at: s.now });
                        }
                    }
                }
            }
            Ev::Advance(dt) => {
                s.now += dt;
                MockTimeSource::set_time(s.now);
                s.table.housekeep();
                s.last_sweep = s.now;
            }
            Ev::AdvanceNoSweep => {
                s.now += 1;
                MockTimeSource::set_time(s.now);
            }
            Ev::Learn(a, p) => {
                // learned from a frame of peer p: good for the switch timeout and for as long as p stays (a disconnect or a
                // shrinking re-announcement of p deletes it from the list like any other decision of p)
                s.table.cache(s.addrs[*a], peer_addr(*p));
                // the table keeps ONE decision per address: learning replaces whatever was cached for it before, so a later lookup
                // that finds nothing cached (the learned entry left with its peer) computes a NEW decision with its own lifetime
                s.decisions.retain(|d| d.addr != *a);
                s.decisions.push(Decision { addr: *a, peer: *p, claim: LEARNED, at: s.now });
            }
        }
        // forget decisions that can no longer matter
        let (now, sweep) = (s.now, s.last_sweep);
        s.decisions.retain(|d| now <= d.at + SWITCH_TO || d.at + SWITCH_TO >= sweep);
        Ok(())
    }

    fn canon(&self, s: &Sys) -> Vec<u8> {
        let mut out = String::new();
        for (p, r, t) in s.table.verif_claims() {
            out.push_str(&format!("c({},{},{})", p.port(), r, (t - s.now).max(-1)));
        }
        for (a, p, t) in s.table.verif_cache() {
            out.push_str(&format!("k({},{},{})", a, p.port(), (t - s.now).max(-1)));
        }
        out.push_str(&format!("|sweep={}", s.now - s.last_sweep));
        for p in 0..3 {
            out.push_str(&format!("|a{}={:?}", p, s.announced[p].as_ref().map(|(set, t)| (set.clone(), (s.now - t).min(PEER_TO + 2)))));
        }
        let mut ds: Vec<String> = s.decisions.iter().map(|d| format!("d({},{},{},{})", d.addr, d.peer, d.claim, (s.now - d.at).min(SWITCH_TO + 2))).collect();
        ds.sort();
        out.push_str(&ds.join(""));
        out.into_bytes()
    }

    fn probe(&self, mut s: Sys, _hist: &[Ev]) -> Result<u64, Fail> {
        // every address is looked up in every state (destructive: fills the cache)
        let mut class = 0u64;
        for a in 0..s.addrs.len() {
            self.apply(&mut s, &Ev::Lookup(a))?;
            class = class * 5 + s.decisions.iter().filter(|d| d.addr == a).map(|d| d.peer as u64 + 1).last().unwrap_or(0);
        }
        Ok(class)
    }
}

// ---------- node level ----------

#[derive(Serialize, Deserialize, Clone, Debug)]
pub struct NodeCase {
    pub mode: String,
}

pub fn run_node(c: &NodeCase) -> CaseResult {
    if c.mode == "router" {
        let mut cfgs = vec![];
        for i in 0..3 {
            let mut cfg = base_config(Mode::Router, Type::Tun, 0, &[0]);
            cfg.claims = vec![format!("10.{}.0.0/16", i), format!("10.{}.5.0/24", (i + 1) % 3)];
            cfgs.push(cfg);
        }
        let mut net = Net::<Packet>::mesh(&cfgs, 3);
        // most specific claim wins across peers: 10.1.5.x is claimed /16 by node 1 and /24 by node 0
        let cases: Vec<(usize, [u8; 4], Option<usize>)> = vec![(2, [10, 1, 5, 9], Some(0)), (2, [10, 1, 6, 9], Some(1)), (0, [10, 2, 5, 1], Some(1)), (0, [172, 16, 0, 1], None), (1, [10, 9, 0, 1], None)];
        for (from, dst, want) in cases {
            let before = net.nodes[from].verif_dropped();
            net.queue.clear();
            net.put_frame(from, ipv4_packet([10, from as u8, 0, 1], dst, b"payload-c11")).map_err(|e| Fail::new("send_error", format!("{}", e)))?;
            let sent: Vec<_> = net.queue.iter().map(|w| net.node_index(&w.to)).collect();
            net.deliver_all(64);
            let after = net.nodes[from].verif_dropped();
            match want {
                Some(j) => {
                    if sent != vec![Some(j)] {
                        return Err(Fail::new("wrong_next_hop", format!("packet to {:?} from node {} went to {:?}, expected node {}", dst, from, sent, j)).with("family", "node"));
                    }
                    for k in 0..3 {
                        let got = net.pop_frames(k).len();
                        if (k == j) != (got == 1) {
                            return Err(Fail::new("wrong_delivery", format!("node {} received {} packets for {:?}", k, got, dst)));
                        }
                    }
                }
                None => {
                    if !sent.is_empty() {
                        return Err(Fail::new("unknown_not_dropped", format!("router sent a packet for unclaimed {:?} to {:?}", dst, sent)));
                    }
                    if after.2 != before.2 + 1 {
                        return Err(Fail::new("drop_not_counted", format!("dropped-payload counter went {} -> {}", before.2, after.2)));
                    }
                }
            }
        }
        Ok(1)
    } else {
        let mode = if c.mode == "switch" { Mode::Switch } else { Mode::Hub };
        let cfgs: Vec<_> = (0..3).map(|_| base_config(mode, Type::Tap, 0, &[0])).collect();
        let mut net = Net::<Frame>::mesh(&cfgs, 3);
        net.queue.clear();
        let before = net.nodes[0].verif_dropped();
        net.put_frame(0, eth_frame([2, 9, 9, 9, 9, 9], [2, 0, 0, 0, 0, 1], None, b"unknown-destination")).map_err(|e| Fail::new("send_error", format!("{}", e)))?;
        let mut sent: Vec<_> = net.queue.iter().map(|w| net.node_index(&w.to)).collect();
        sent.sort();
        if sent != vec![Some(1), Some(2)] {
            return Err(Fail::new("unknown_not_flooded", format!("{} mode: unknown destination went to {:?}, expected every peer once", c.mode, sent)));
        }
        if net.nodes[0].verif_dropped().2 != before.2 {
            return Err(Fail::new("drop_counted", "flooded frame counted as dropped"));
        }
        Ok(2)
    }
}

fn variants(tier: Tier) -> Vec<(&'static str, usize)> {
    match tier {
        Tier::Quick => vec![("ipv4", 4), ("ipv6", 3), ("mac", 3)],
        Tier::Thorough => vec![("ipv4", 6), ("ipv6", 5), ("mac", 5)],
    }
}

pub fn run(ctx: &Ctx) {
    super::modes::run(ctx);
    // prefix matching
    let mut blocks = vec![];
    for b in 0..=255u8 {
        blocks.push(MatchBlock { len: 1, base: vec![b], addrs: "all".into(), max_prefix: 20 });
    }
    for b in 0..=0xffffu32 {
        let all = ctx.tier == Tier::Thorough || b % 257 == 0;
        blocks.push(MatchBlock { len: 2, base: vec![(b >> 8) as u8, b as u8], addrs: if all { "all" } else { "boundary" }.into(), max_prefix: 20 });
    }
    for len in [4usize, 6, 8, 16] {
        for pat in 0..8u8 {
            let base: Vec<u8> = (0..len).map(|i| match pat {
                0 => 0,
                1 => 0xff,
                2 => 0xaa,
                3 => 0x55,
                4 => (i as u8).wrapping_mul(17).wrapping_add(1),
                5 => 0x80,
                6 => 0x01,
                _ => 255u8.wrapping_sub((i as u8).wrapping_mul(13)),
            }).collect();
            blocks.push(MatchBlock { len, base, addrs: "onebit".into(), max_prefix: 255 });
        }
    }
    let st = sweep_list(ctx, "prefix_match", &blocks, SweepOpts { chunk: 64, ..Default::default() }, run_match_block);
    let _ = st;
    // table
    for (i, (family, depth)) in variants(ctx.tier).into_iter().enumerate() {
        let m = M { family, narrow: false };
        let fam = format!("table_{}", family);
        let res = explore::explore(
            ctx,
            &fam,
            &m,
            ExploreOpts { max_depth: depth, wall_cap: Duration::from_secs(ctx.tier.pick(400, 1500)), state_cap: ctx.tier.pick(600_000, 16_000_000), dedup: true },
        );
        if i == 0 {
            explore::audit_dedup(ctx, &fam, &m, &res, ctx.tier.pick(2, 3), Duration::from_secs(ctx.tier.pick(300, 300)));
        }
    }
    explore::explore(
        ctx,
        "table_ipv4_narrow",
        &M { family: "ipv4", narrow: true },
        ExploreOpts { max_depth: ctx.tier.pick(11, 16), wall_cap: Duration::from_secs(ctx.tier.pick(400, 1500)), state_cap: ctx.tier.pick(600_000, 16_000_000), dedup: true },
    );
    // "never beyond the life of the ... peer it came from", at node level: decisions learned from a peer's traffic (fresh far
    // beyond the peer timeout) go at the tick at which the silent peer is removed (C15's scenario, run here under C11's name)
    let sl: Vec<super::c15::SilenceCase> = [0i64, 7, 33].iter().map(|t| super::c15::SilenceCase { from_second: *t, timeout: 120, victim_timeout: None }).collect();
    sweep_list(ctx, "peer_timeout_learned_decisions", &sl, SweepOpts { chunk: 1, ..Default::default() }, super::c15::run_silence_learned);
    let nodes: Vec<NodeCase> = ["router", "switch", "hub"].iter().map(|m| NodeCase { mode: m.to_string() }).collect();
    sweep_list(ctx, "node_unknown_destination", &nodes, SweepOpts { chunk: 1, ..Default::default() }, run_node);
    ctx.assume("time constants are scaled down (switch timeout 3 s, peer timeout 7 s): the table only compares expiries with the clock");
    ctx.assume("expiry has one sweep of slack: entries are removed by the sweep, not by the lookup (the event loop may run a lookup between the clock step and the sweep)");
    ctx.assume("each prefix_match evaluation is a block: one base x all prefix lengths x all addresses of its address set");
}

pub fn replay(family: &str, case: &Value) -> Option<CaseResult> {
    match family {
        "prefix_match" => replay_with::<MatchBlock>(case, run_match_block),
        "node_unknown_destination" => replay_with::<NodeCase>(case, run_node),
        "peer_timeout_learned_decisions" => replay_with::<super::c15::SilenceCase>(case, super::c15::run_silence_learned),
        "mode_matrix" => replay_with::<super::modes::ModeCase>(case, super::modes::run_case),
        f if f.starts_with("table_") => {
            let fam = f.trim_end_matches("-audit");
            let family: &'static str = match fam {
                "table_ipv4" | "table_ipv4_narrow" => "ipv4",
                "table_ipv6" => "ipv6",
                _ => "mac",
            };
            let hist: Vec<Ev> = serde_json::from_value(case["history"].clone()).ok()?;
            Some(explore::replay_history(&M { family, narrow: f.contains("narrow") }, &hist))
        }
        _ => None,
    }
}
