//! C01 Only holders of a mutually trusted key can become peers.
//! E4 (+E3): (A) receivers in every handshake stage x genuine ping/pong/peng x every single-bit flip, every truncation
//! (zero and junk tail), messages signed by an untrusted key (also grafted onto a valid key-hash prefix), marker-only
//! datagrams; (B) all 4096 trust graphs over 4 key pairs through real handshakes; (C) the same menu against real nodes.
use super::{c08, common::*, netsim::*, replay_with, Prop};
use crate::{
    crypto::{verif as cv, Algorithms, Config as CryptoConfig, Crypto, EcdhPublicKey, MessageResult, PeerCrypto},
    mc::{sweep::*, util, CaseResult, Ctx, Fail, Tier},
    payload::Frame,
    util::MsgBuffer,
};
use ring::agreement::X25519;
use serde_json::Value;
use smallvec::SmallVec;

pub fn prop() -> Prop {
    Prop {
        id: "C01",
        title: "Only holders of a mutually trusted key can become peers",
        level: "fault_enumeration",
        rule: "complete enumeration of: (A) {fresh, awaiting pong, awaiting peng, completed-lingering, closed} receivers x genuine ping/pong/peng (in context and from a \
               twin handshake) x {every single-bit flip, every truncation with zero and junk tail, well-formed messages of every stage signed by an untrusted key, the \
               same grafted onto the trusted key's hash prefix, 0xff + every string of length <= 2, valid prefix + every tag x extreme length}; oracle: error returned, \
               receiver view unchanged; (B) 4 key pairs (2 password-derived, 2 explicit) x own key x trusted set (16 subsets) for both parties = 4096 real handshakes, \
               both complete iff each key is in the other's effective trusted set; (C) node level: 4 victim states x in-context genuine datagrams x bit flips / \
               truncations from the peer's and an unknown address, oracle as in C08. non-trivial = input differs from every genuine message and reached signature or \
               trust evaluation. Receivers also include bare InitState machines in stages closing / waiting-to-close / timed out",
        run,
        replay,
    }
}

/// The first five receivers are PeerCrypto objects (what a node holds per address); the `is_` ones are bare InitState machines
/// in the stages that PeerCrypto never keeps around (it drops a responder's machine the moment it reaches CLOSING), which the
/// statement nevertheless lists as a receiver stage ("closing") and which the repository's own tests drive directly.
pub const STAGES: [&str; 8] = ["fresh", "awaiting_pong", "awaiting_peng", "lingering", "closed", "is_closing", "is_waiting_to_close", "is_timed_out"];

/// A receiver under attack: a PeerCrypto object or a bare handshake state machine.
enum Rx {
    Pc(PeerCrypto<Blob>),
    Is(cv::InitState<Blob>),
}

impl Rx {
    fn view(&self) -> String {
        match self {
            Rx::Pc(p) => format!("{:?}", p.verif_state()),
            Rx::Is(i) => format!("{:?}", i.verif_state()),
        }
    }

    /// Hands the datagram (loaded in `buf`, marker included) to the receiver. Ok(text) = it was accepted / answered.
    fn shoot(&mut self, buf: &mut MsgBuffer) -> Result<String, crate::error::Error> {
        match self {
            Rx::Pc(p) => p.handle_message(buf).map(|r| format!("{:?}", r)),
            Rx::Is(i) => {
                // PeerCrypto::handle_message strips the marker and calls handle_init with the rest
                buf.take_prefix();
                i.handle_init(buf).map(|r| match r {
                    cv::InitResult::Continue => format!("Continue (reply buffer holds {} bytes)", buf.len()),
                    cv::InitResult::Success { .. } => "Success".to_string(),
                })
            }
        }
    }
}

fn mk_is(nid: u8, key: usize, trusted: &[usize], payload: u8) -> cv::InitState<Blob> {
    let c = mk_crypto(node_id(nid), &cfg_with_key(key, trusted, &[]), [100.0, 90.0, 80.0]).expect("crypto");
    let trusted: std::sync::Arc<[_]> = std::sync::Arc::from(c.verif_trusted_keys());
    cv::InitState::new(node_id(nid), Blob(vec![payload]), c.verif_key_pair(), trusted, c.verif_algorithms().clone())
}

/// One handshake message (marker included) into a bare state machine; returns its reply (marker included) if any.
fn is_step(rx: &mut cv::InitState<Blob>, data: &[u8]) -> Vec<u8> {
    let mut buf = MsgBuffer::new(SPACE);
    load(&mut buf, &data[1..]);
    rx.handle_init(&mut buf).expect("genuine handshake message");
    let mut out = vec![0xff];
    out.extend_from_slice(buf.message());
    out
}

struct Setup {
    r: Rx,
    /// genuine messages with names; `in_context` marks the one that R would accept next
    genuine: Vec<(String, Vec<u8>)>,
}

fn mk_pc(nid: u8, key: usize, trusted: &[usize], payload: u8) -> PeerCrypto<Blob> {
    let c = mk_crypto(node_id(nid), &cfg_with_key(key, trusted, &[]), [100.0, 90.0, 80.0]).expect("crypto");
    c.peer_instance(Blob(vec![payload]))
}

fn step(rx: &mut PeerCrypto<Blob>, data: &[u8]) -> (Result<MessageResult<Blob>, String>, Vec<u8>) {
    let mut buf = MsgBuffer::new(SPACE);
    load(&mut buf, data);
    match rx.handle_message(&mut buf) {
        Ok(r) => (Ok(r), buf.message().to_vec()),
        Err(e) => (Err(format!("{}", e)), vec![]),
    }
}

fn build_stage(stage: &str) -> Setup {
    // twin handshake for out-of-context genuine messages (same keys, other run)
    let mut t1 = mk_pc(3, 0, &[0], 3);
    let mut t2 = mk_pc(4, 0, &[0], 4);
    let tw = handshake(&mut t1, &mut t2);
    let twin: Vec<(String, Vec<u8>)> =
        tw.datagrams.iter().take(3).enumerate().map(|(i, d)| (format!("twin_{}", ["ping", "pong", "peng"][i]), d.1.clone())).collect();
    if stage.starts_with("is_") {
        let mut r = mk_is(1, 0, &[0], 1);
        let mut s = mk_is(2, 0, &[0], 2);
        let mut genuine = vec![];
        let mut buf = MsgBuffer::new(SPACE);
        match stage {
            "is_closing" => {
                // responder that accepted the peng: stage CLOSING
                s.send_ping(&mut buf);
                let mut ping = vec![0xff];
                ping.extend_from_slice(buf.message());
                let pong = is_step(&mut r, &ping);
                let peng = is_step(&mut s, &pong);
                is_step(&mut r, &peng);
                assert_eq!(r.stage(), cv::CLOSING);
                genuine.push(("ctx_peng_again".to_string(), peng));
                genuine.push(("ctx_ping_again".to_string(), ping));
            }
            "is_waiting_to_close" => {
                // initiator that accepted the pong and lingers
                r.send_ping(&mut buf);
                let mut ping = vec![0xff];
                ping.extend_from_slice(buf.message());
                let pong = is_step(&mut s, &ping);
                is_step(&mut r, &pong);
                assert_eq!(r.stage(), cv::WAITING_TO_CLOSE);
                genuine.push(("ctx_pong_again".to_string(), pong));
            }
            "is_timed_out" => {
                // initiator whose retries ran out (the error every_second returns makes the node drop it; the machine itself is CLOSING)
                r.send_ping(&mut buf);
                let mut ping = vec![0xff];
                ping.extend_from_slice(buf.message());
                let pong = is_step(&mut s, &ping);
                for _ in 0..=cv::MAX_FAILED_RETRIES + 1 {
                    let mut out = MsgBuffer::new(SPACE);
                    r.every_second(&mut out).ok();
                }
                assert_eq!(r.stage(), cv::CLOSING);
                genuine.push(("ctx_pong_late".to_string(), pong));
            }
            _ => panic!("stage"),
        }
        genuine.extend(twin);
        return Setup { r: Rx::Is(r), genuine };
    }
    let mut r = mk_pc(1, 0, &[0], 1);
    let mut s = mk_pc(2, 0, &[0], 2);
    let mut genuine = vec![];
    let mut buf = MsgBuffer::new(SPACE);
    match stage {
        "fresh" => {
            s.initialize(&mut buf).unwrap();
            genuine.push(("ctx_ping".to_string(), buf.message().to_vec()));
        }
        "awaiting_pong" => {
            r.initialize(&mut buf).unwrap();
            let ping = buf.message().to_vec();
            let (_, pong) = step(&mut s, &ping);
            genuine.push(("ctx_pong".to_string(), pong));
        }
        "awaiting_peng" => {
            s.initialize(&mut buf).unwrap();
            let ping = buf.message().to_vec();
            let (_, pong) = step(&mut r, &ping);
            let (_, peng) = step(&mut s, &pong);
            genuine.push(("ctx_ping_again".to_string(), ping));
            genuine.push(("ctx_peng".to_string(), peng));
        }
        "lingering" => {
            r.initialize(&mut buf).unwrap();
            let ping = buf.message().to_vec();
            let (_, pong) = step(&mut s, &ping);
            let (_, _peng) = step(&mut r, &pong);
            genuine.push(("ctx_pong_again".to_string(), pong));
        }
        "closed" => {
            s.initialize(&mut buf).unwrap();
            let ping = buf.message().to_vec();
            let (_, pong) = step(&mut r, &ping);
            let (_, peng) = step(&mut s, &pong);
            let (_, _rot) = step(&mut r, &peng);
            genuine.push(("ctx_peng_again".to_string(), peng));
            genuine.push(("ctx_ping_again".to_string(), ping));
        }
        _ => panic!("stage"),
    }
    genuine.extend(twin);
    // a handshake in progress has usually retransmitted a few times: non-zero retry counters make "resets" visible
    if stage == "awaiting_pong" || stage == "awaiting_peng" || stage == "lingering" {
        for _ in 0..3 {
            let mut out = MsgBuffer::new(SPACE);
            r.every_second(&mut out).ok();
        }
    }
    Setup { r: Rx::Pc(r), genuine }
}

#[derive(Serialize, Deserialize, Clone, Debug)]
pub struct ObjCase {
    pub stage: String,
    pub how: String,
    /// the forged datagram is rebuilt from this recipe at replay time (key material differs per execution)
    pub recipe: Recipe,
}

#[derive(Serialize, Deserialize, Clone, Debug)]
pub enum Recipe {
    /// genuine message `name`, bit `bit` flipped
    Flip { name: String, bit: usize },
    /// genuine message truncated to `len`, receive buffer tail filled with `tail`
    Trunc { name: String, len: usize, tail: u8 },
    /// well-formed message of `stage` signed by an untrusted key; `graft` = overwrite key-hash prefix with the trusted key's
    Untrusted { stage: u8, graft: bool, variant: u8 },
    /// 0xff + bytes
    Marker { bytes: Vec<u8> },
    /// 0xff + valid prefix + tag + length (+ rest of genuine message if `keep`)
    Part { tag: u8, len: usize, keep: bool },
    /// well-formed message of `stage` whose 64 signature bytes are one of a few degenerate values (all zero, R = the neutral
    /// element with S = 0, R = a point of small order with S = 0, all 0xff): no key is needed to write those down
    Degenerate { stage: u8, graft: bool, variant: u8, pattern: u8 },
}

fn untrusted_msg(stage: u8, variant: u8, genuine_prefix: Option<&[u8]>) -> Vec<u8> {
    // key pair 5 of the test keys is trusted by nobody in these set-ups
    let c = mk_crypto(node_id(7), &cfg_with_key(5, &[5], &[]), [1.0, 1.0, 1.0]).expect("crypto");
    let kp = c.verif_key_pair();
    let mut hash = [0u8; 20];
    match variant % 3 {
        0 => {}
        1 => hash = [0xff; 20],
        _ => {
            for (i, b) in hash.iter_mut().enumerate() {
                *b = i as u8
            }
        }
    }
    let key_len = [32usize, 0, 31, 33, 96][(variant / 3) as usize % 5];
    let key: SmallVec<[u8; 96]> = (0..key_len).map(|i| i as u8 + 1).collect();
    let ecdh = EcdhPublicKey::new(&X25519, key);
    let algorithms = match variant % 4 {
        0 => Algorithms { algorithm_speeds: smallvec::smallvec![(algo_by_id(1), 600.0), (algo_by_id(2), 500.0), (algo_by_id(3), 400.0)], allow_unencrypted: false },
        1 => Algorithms { algorithm_speeds: smallvec::smallvec![], allow_unencrypted: true },
        2 => Algorithms { algorithm_speeds: smallvec::smallvec![(algo_by_id(3), 0.0)], allow_unencrypted: true },
        _ => Algorithms { algorithm_speeds: smallvec::smallvec![], allow_unencrypted: false },
    };
    let mut payload = MsgBuffer::new(0);
    payload.set_length([0usize, 1, 24, 40][(variant % 4) as usize]);
    let msg = match stage {
        1 => cv::InitMsg::Ping { salted_node_id_hash: hash, ecdh_public_key: ecdh, algorithms },
        2 => cv::InitMsg::Pong { salted_node_id_hash: hash, ecdh_public_key: ecdh, algorithms, encrypted_payload: payload },
        _ => cv::InitMsg::Peng { salted_node_id_hash: hash, encrypted_payload: payload },
    };
    let mut out = vec![0u8; 70000];
    let n = cv::init_verif::write_to(&msg, &mut out[1..], &kp).expect("write");
    out.truncate(n + 1);
    out[0] = 0xff;
    if stage == 0 || stage > 3 {
        // invalid stage values: patch the stage byte (marker 1 + prefix 8 + tag/len 3)
        out[12] = stage;
    }
    if let Some(p) = genuine_prefix {
        out[1..9].copy_from_slice(&p[1..9]);
    }
    out
}

fn realise(setup: &Setup, recipe: &Recipe) -> Option<(Vec<u8>, u8)> {
    let find = |name: &str| setup.genuine.iter().find(|g| g.0 == name).map(|g| g.1.clone());
    Some(match recipe {
        Recipe::Flip { name, bit } => {
            let mut d = find(name)?;
            if *bit >= d.len() * 8 {
                return None;
            }
            d[bit / 8] ^= 1 << (bit % 8);
            (d, 0)
        }
        Recipe::Trunc { name, len, tail } => {
            let d = find(name)?;
            if *len >= d.len() {
                return None;
            }
            (d[..*len].to_vec(), *tail)
        }
        Recipe::Untrusted { stage, graft, variant } => {
            let prefix = setup.genuine[0].1.clone();
            (untrusted_msg(*stage, *variant, if *graft { Some(&prefix) } else { None }), 0)
        }
        Recipe::Degenerate { stage, graft, variant, pattern } => {
            let prefix = setup.genuine[0].1.clone();
            let mut d = untrusted_msg(*stage, *variant, if *graft { Some(&prefix) } else { None });
            let n = d.len();
            if n < 64 {
                return None;
            }
            let sig = &mut d[n - 64..];
            match pattern % 5 {
                0 => sig.iter_mut().for_each(|b| *b = 0),
                1 => {
                    sig.iter_mut().for_each(|b| *b = 0);
                    sig[0] = 1; // R = neutral element (y = 1), S = 0
                }
                2 => {
                    sig.iter_mut().for_each(|b| *b = 0);
                    sig[0] = 0xec; // R = y = -1 (order 2): ec ff .. ff 7f
                    for b in sig[1..31].iter_mut() {
                        *b = 0xff;
                    }
                    sig[31] = 0x7f;
                }
                3 => {
                    sig.iter_mut().for_each(|b| *b = 0); // R = y = 0 (order 4), S = 0
                    sig[31] = 0x80;
                }
                _ => sig.iter_mut().for_each(|b| *b = 0xff),
            }
            if !*graft {
                // an unknown key: random-looking salt and hash
                d[1..9].copy_from_slice(&[0x5a, 0xc3, *variant, *pattern, 0x11, 0x7e, *stage, 0x99]);
            }
            (d, 0)
        }
        Recipe::Marker { bytes } => {
            let mut d = vec![0xff];
            d.extend_from_slice(bytes);
            (d, 0)
        }
        Recipe::Part { tag, len, keep } => {
            let g = &setup.genuine[0].1;
            let mut d = g[..9].to_vec();
            d.extend_from_slice(&[*tag, (*len >> 8) as u8, *len as u8]);
            if *keep {
                d.extend_from_slice(&g[12.min(g.len())..]);
            }
            (d, 0)
        }
    })
}

/// True if the datagram (with the receive buffer's tail) is byte-identical to a genuine signed message.
fn is_genuine(setup: &Setup, d: &[u8], tail: u8) -> bool {
    setup.genuine.iter().any(|(_, g)| {
        let n = d.len().min(g.len());
        d[..n] == g[..n] && g[n..].iter().all(|b| *b == tail)
    })
}

fn shoot_obj(setup: &mut Setup, before: &String, d: &[u8], tail: u8) -> Result<u64, Fail> {
    if matches!(setup.r, Rx::Is(_)) && d.first() != Some(&0xff) {
        return Ok(0); // without the marker a datagram never reaches the handshake machine
    }
    let mut buf = MsgBuffer::new(SPACE);
    load_with_tail(&mut buf, d, tail);
    let res = setup.r.shoot(&mut buf);
    match res {
        Ok(r) => Err(Fail::new("forgery_accepted", format!("receiver returned {} for a datagram no trusted key signed", r))),
        Err(e) => {
            let after = setup.r.view();
            if after != *before {
                return Err(Fail::new("state_changed", format!("rejected datagram ({}) altered the handshake in progress", e)));
            }
            Ok(match e {
                crate::error::Error::Crypto("untrusted peer") => 2,
                crate::error::Error::Crypto("invalid signature") => 3,
                crate::error::Error::Parse(_) => 4,
                _ => 5,
            })
        }
    }
}

pub fn run_obj(c: &ObjCase) -> CaseResult {
    let mut setup = build_stage(&c.stage);
    let (d, tail) = match realise(&setup, &c.recipe) {
        Some(x) => x,
        None => return Ok(0),
    };
    if is_genuine(&setup, &d, tail) {
        return Ok(0);
    }
    let before = setup.r.view();
    shoot_obj(&mut setup, &before, &d, tail).map_err(|f| f.with("stage", c.stage.clone()))
}

/// All recipes for one stage (executed as one batch on one receiver, which must stay unchanged).
fn recipes(stage: &str, tier: Tier) -> Vec<(String, Recipe)> {
    let setup = build_stage(stage);
    let mut v = vec![];
    for (name, g) in &setup.genuine {
        for bit in 0..g.len() * 8 {
            v.push((format!("{} bit {}", name, bit), Recipe::Flip { name: name.clone(), bit }));
        }
        for len in 0..g.len() {
            for tail in [0u8, 0xa5] {
                v.push((format!("{} cut {} tail {:#x}", name, len, tail), Recipe::Trunc { name: name.clone(), len, tail }));
            }
        }
    }
    for st in [1u8, 2, 3, 0, 4, 255] {
        for graft in [false, true] {
            for variant in 0..ctx_variants(tier) {
                v.push((format!("untrusted stage {} graft {} variant {}", st, graft, variant), Recipe::Untrusted { stage: st, graft, variant }));
            }
        }
    }
    for st in [1u8, 2, 3] {
        for graft in [false, true] {
            for variant in 0..60u8 {
                for pattern in 0..5u8 {
                    v.push((format!("degenerate signature {} stage {} graft {} variant {}", pattern, st, graft, variant), Recipe::Degenerate { stage: st, graft, variant, pattern }));
                }
            }
        }
    }
    v.push(("marker only".into(), Recipe::Marker { bytes: vec![] }));
    for a in 0..=255u8 {
        v.push((format!("marker+[{}]", a), Recipe::Marker { bytes: vec![a] }));
        if tier == Tier::Thorough || a % 16 == 0 || a == 0xff {
            for b in 0..=255u8 {
                v.push((format!("marker+[{},{}]", a, b), Recipe::Marker { bytes: vec![a, b] }));
            }
        }
    }
    for tag in 0..=255u8 {
        for len in [0usize, 1, 20, 255, 256, 65535] {
            for keep in [false, true] {
                v.push((format!("part tag {} len {} keep {}", tag, len, keep), Recipe::Part { tag, len, keep }));
            }
        }
    }
    v
}

fn ctx_variants(tier: Tier) -> u8 {
    tier.pick(12, 60)
}

#[derive(Serialize, Deserialize, Clone, Debug)]
pub struct StageBatch {
    pub stage: String,
    pub part: usize,
    pub parts: usize,
}

fn run_stage_batch(b: &StageBatch, tier: Tier, ctx: Option<&Ctx>) -> CaseResult {
    let all = recipes(&b.stage, tier);
    let mut setup = build_stage(&b.stage);
    let mut before = setup.r.view();
    let mut n = 0u64;
    let mut nt = 0u64;
    let mut first: Option<Fail> = None;
    for (i, (how, recipe)) in all.iter().enumerate() {
        if i % b.parts != b.part {
            continue;
        }
        let (d, tail) = match realise(&setup, recipe) {
            Some(x) => x,
            None => continue,
        };
        if is_genuine(&setup, &d, tail) {
            continue;
        }
        n += 1;
        match util::catch(|| shoot_obj(&mut setup, &before, &d, tail)) {
            Ok(Ok(c)) => {
                if c >= 2 {
                    nt += 1;
                }
            }
            other => {
                let f = match other {
                    Ok(Err(f)) => f,
                    Err(p) => Fail::from_panic(&p),
                    _ => unreachable!(),
                }
                .with("stage", b.stage.clone())
                .with("recipe", recipe_kind(recipe));
                if let Some(ctx) = ctx {
                    ctx.add_violation("forged_object", serde_json::to_value(&ObjCase { stage: b.stage.clone(), how: how.clone(), recipe: recipe.clone() }).unwrap(), f.clone());
                }
                if first.is_none() {
                    first = Some(f);
                }
                setup = build_stage(&b.stage);
                before = setup.r.view();
            }
        }
    }
    if ctx.is_none() {
        if let Some(f) = first {
            return Err(f);
        }
    }
    Ok((n << 24) | nt)
}

fn recipe_kind(r: &Recipe) -> &'static str {
    match r {
        Recipe::Flip { .. } => "flip",
        Recipe::Trunc { .. } => "trunc",
        Recipe::Untrusted { .. } => "untrusted",
        Recipe::Marker { .. } => "marker",
        Recipe::Part { .. } => "part",
        Recipe::Degenerate { .. } => "degenerate_signature",
    }
}

// ---------- (B) trust graphs ----------

#[derive(Serialize, Deserialize, Clone, Debug)]
pub struct TrustCase {
    pub a_key: usize,
    pub a_trusts: u8, // bit mask over the 4 keys; 0 = no trusted keys configured
    pub b_key: usize,
    pub b_trusts: u8,
}

/// 4 identities: 0,1 = password-derived (configured through `password`), 2,3 = explicit key pairs.
fn identity_cfg(key: usize, trusts: u8) -> CryptoConfig {
    let pws = ["trust-pw-zero", "trust-pw-one"];
    let keys = test_keys();
    let pubkey = |k: usize| -> String {
        if k < 2 {
            Crypto::generate_keypair(Some(pws[k])).1
        } else {
            keys[k].1.clone()
        }
    };
    let mut cfg = CryptoConfig::default();
    if key < 2 {
        cfg.password = Some(pws[key].to_string());
    } else {
        cfg.private_key = Some(keys[key].0.clone());
    }
    for k in 0..4 {
        if trusts & (1 << k) != 0 {
            cfg.trusted_keys.push(pubkey(k));
        }
    }
    cfg
}

pub fn run_trust(c: &TrustCase) -> CaseResult {
    let ca = mk_crypto(node_id(1), &identity_cfg(c.a_key, c.a_trusts), [100.0, 90.0, 80.0]).map_err(|e| Fail::new("config_rejected", format!("{}", e)))?;
    let cb = mk_crypto(node_id(2), &identity_cfg(c.b_key, c.b_trusts), [100.0, 90.0, 80.0]).map_err(|e| Fail::new("config_rejected", format!("{}", e)))?;
    let eff = |key: usize, t: u8| if t == 0 { 1u8 << key } else { t };
    let mutual = eff(c.a_key, c.a_trusts) & (1 << c.b_key) != 0 && eff(c.b_key, c.b_trusts) & (1 << c.a_key) != 0;
    let mut class = 0;
    for a_initiates in [true, false] {
        let mut a = ca.peer_instance(Blob(vec![1]));
        let mut b = cb.peer_instance(Blob(vec![2]));
        let out = if a_initiates { handshake(&mut a, &mut b) } else { handshake(&mut b, &mut a) };
        let (x_done, y_done) = (out.a_done.is_some(), out.b_done.is_some());
        if mutual {
            if !(x_done && y_done) {
                return Err(Fail::new("trusted_rejected", format!("mutually trusting parties did not connect (initiator {}): {:?} {:?}", if a_initiates { "a" } else { "b" }, out.a_err, out.b_err)));
            }
            class = 2;
        } else {
            if x_done || y_done {
                return Err(Fail::new(
                    "untrusted_accepted",
                    format!("a party completed a handshake without mutual trust (a trusts b: {}, b trusts a: {}; initiator {}; completed: initiator={} responder={})",
                        eff(c.a_key, c.a_trusts) & (1 << c.b_key) != 0, eff(c.b_key, c.b_trusts) & (1 << c.a_key) != 0, if a_initiates { "a" } else { "b" }, x_done, y_done),
                )
                .with("a_has_explicit_trust", c.a_trusts != 0)
                .with("same_key", c.a_key == c.b_key));
            }
            let (va, vb) = (a.verif_state(), b.verif_state());
            if va.core.is_some() || vb.core.is_some() || va.rotation.is_some() || vb.rotation.is_some() {
                return Err(Fail::new("state_without_trust", "crypto core or rotation state exists without mutual trust"));
            }
            class = 1;
        }
    }
    Ok(class)
}

// ---------- (C) node level ----------

#[derive(Serialize, Deserialize, Clone, Debug)]
pub struct NodeBatch {
    pub state: String,
    pub source: String,
}

/// Victim V = node 0 in `state`, with the genuine datagram(s) B would send next (not delivered).
fn node_context(state: &str) -> (Net<Frame>, Vec<(String, Vec<u8>)>) {
    let mut net = c08::build_state(if state == "established" { "established_settled" } else { state });
    let (v, b) = (net.addrs[0], net.addrs[1]);
    let mut genuine = vec![];
    match state {
        "unknown_sender" => {
            net.connect(1, v);
            genuine.push(("ping".to_string(), net.queue.pop_back().unwrap().data));
            net.queue.clear();
        }
        "pending_initiator" => {
            // V's ping was dropped by build_state; recreate the exchange: B answers V's retransmitted ping
            net.housekeep(0);
            let ping = net.queue.pop_front().unwrap();
            net.queue.clear();
            net.hand_over(ping);
            genuine.push(("pong".to_string(), net.queue.pop_back().unwrap().data));
            net.queue.clear();
        }
        "pending_responder" => {
            // V sent pong (dropped by build_state); let V retransmit it, B answers with peng
            net.housekeep(0);
            let pong = net.queue.pop_front().unwrap();
            net.queue.clear();
            net.hand_over(pong);
            let peng = net.queue.pop_front().unwrap().data;
            genuine.push(("peng".to_string(), peng));
            net.queue.clear();
        }
        _ => {
            for (n, d) in c08::genuine(false) {
                if ["ping", "pong", "peng"].contains(&n.as_str()) {
                    genuine.push((format!("other_run_{}", n), d));
                }
            }
        }
    }
    let _ = b;
    (net, genuine)
}

fn run_node_batch(b: &NodeBatch, tier: Tier, ctx: Option<&Ctx>) -> CaseResult {
    let (mut net, genuine) = node_context(&b.state);
    let mut before = net.snapshot(0);
    let mut n = 0u64;
    let mut first = None;
    for (name, g) in &genuine {
        let mut muts: Vec<(String, Vec<u8>)> = vec![];
        for bit in 0..g.len() * 8 {
            if tier == Tier::Quick && bit >= 16 * 8 && bit % 8 != (bit / 8) % 8 {
                continue; // quick: all bits of the first 16 bytes, one bit per later byte
            }
            let mut d = g.clone();
            d[bit / 8] ^= 1 << (bit % 8);
            muts.push((format!("{} bit {}", name, bit), d));
        }
        for len in 0..g.len() {
            if g[len..].iter().all(|x| *x == 0) {
                continue; // the zero-filled receive buffer restores the genuine message
            }
            muts.push((format!("{} cut {}", name, len), g[..len].to_vec()));
        }
        for st in [1u8, 2, 3, 0, 255] {
            for graft in [false, true] {
                muts.push((format!("untrusted stage {} graft {}", st, graft), untrusted_msg(st, 0, if graft { Some(g) } else { None })));
            }
        }
        for (how, d) in muts {
            n += 1;
            if let Err(f) = c08_shoot(&mut net, &before, &b.source, &d) {
                let f = f.with("state", b.state.clone());
                if let Some(ctx) = ctx {
                    ctx.add_violation("forged_node", serde_json::json!({"state": b.state, "source": b.source, "how": how}), f.clone());
                }
                if first.is_none() {
                    first = Some(f);
                }
                let x = node_context(&b.state);
                net = x.0;
                before = net.snapshot(0);
            }
        }
    }
    if ctx.is_none() {
        if let Some(f) = first {
            return Err(f);
        }
    }
    Ok(n)
}

fn c08_shoot(net: &mut Net<Frame>, before: &str, source: &str, data: &[u8]) -> Result<u64, Fail> {
    c08::shoot(net, before, source, data, false)
}

// ---------- (D) recorded handshakes replayed by a party that holds no key ----------

#[derive(Serialize, Deserialize, Clone, Debug)]
pub struct ReplayedHandshakeCase {
    /// all nodes allow unencrypted operation ("plain") / default ciphers
    pub plain: bool,
    /// seconds between the genuine handshake and the replay
    pub after: usize,
    /// which recorded datagrams are replayed, in order: "ping,peng", "ping", "peng", "ping,ping,peng", "ping,pong,peng"
    pub what: String,
    /// the replaying party's address: "unknown" (never seen) or "absent" (an address the node once dialled in vain)
    pub from: String,
}

/// A complete genuine handshake (node 1 dials node 0) is recorded; later a party WITHOUT any key sends the recorded
/// datagrams to node 0 from its own address. Possession of a key is proved by what a party can do with FRESH material of the
/// other end, never by bytes anybody can copy: no peer, route or reply-worthy session may result.
pub fn run_replayed_handshake(c: &ReplayedHandshakeCase) -> CaseResult {
    let mut net = Net::<Frame>::new();
    net.capture = Some(vec![]);
    for _ in 0..2 {
        let mut cfg = base_config(crate::types::Mode::Switch, crate::device::Type::Tap, 0, &[0]);
        if c.plain {
            cfg.crypto.algorithms = vec!["plain".to_string()];
        }
        net.add_node(&cfg, false);
    }
    let a = net.addrs.clone();
    net.connect(1, a[0]);
    net.deliver_all(256);
    if !net.fully_meshed() {
        return Err(Fail::new("no_mesh", "set-up handshake failed"));
    }
    net.run(c.after);
    let cap = net.capture.clone().unwrap();
    let find = |stage: u8| cap.iter().find(|w| w.from == a[1] && w.to == a[0] && w.data.first() == Some(&0xff) && w.data.len() > 12 && w.data[12] == stage).map(|w| w.data.clone());
    let pong_of_victim = cap.iter().find(|w| w.from == a[0] && w.data.first() == Some(&0xff) && w.data.len() > 12 && w.data[12] == 2).map(|w| w.data.clone());
    let (ping, peng) = match (find(1), find(3)) {
        (Some(x), Some(y)) => (x, y),
        _ => return Err(Fail::new("harness_capture", "recorded handshake incomplete")),
    };
    let outsider = addr_of(777);
    if c.from == "absent" {
        net.connect(0, outsider);
        net.run(125); // the dial runs out of retries
    }
    let peers_before: Vec<_> = net.nodes[0].verif_peers().iter().map(|p| p.addr).collect();
    for what in c.what.split(',') {
        let d = match what {
            "ping" => ping.clone(),
            "peng" => peng.clone(),
            "pong" => match &pong_of_victim {
                Some(p) => p.clone(),
                None => continue,
            },
            _ => panic!("what"),
        };
        util::catch(|| net.inject(0, outsider, d)).map_err(|p| Fail::from_panic(&p))?;
        // what node 0 answers goes to the outsider's address (nobody there)
        net.deliver_all(64);
    }
    let peers_after: Vec<_> = net.nodes[0].verif_peers().iter().map(|p| p.addr).collect();
    if peers_after.contains(&outsider) {
        return Err(Fail::new("peer_without_proof", format!("replaying the recorded datagrams [{}] from {} made that address a peer of node 0 (peers before: {:?})", c.what, outsider, peers_before))
            .with("plain", c.plain)
            .with("what", c.what.clone()));
    }
    // and the genuine connection is untouched
    if !net.fully_meshed() {
        return Err(Fail::new("genuine_peer_lost", "the replay cost node 0 its genuine peer").with("plain", c.plain));
    }
    // a frame flooded by node 0 goes to its one genuine peer only
    net.queue.clear();
    net.put_frame(0, eth_frame([0xff; 6], [2, 0, 0, 0, 0, 1], None, b"flooded after the replay")).map_err(|e| Fail::new("send_error", format!("{}", e)))?;
    let to: Vec<_> = net.queue.iter().map(|w| w.to).collect();
    if to != vec![a[1]] {
        return Err(Fail::new("payload_to_outsider", format!("a flooded frame went to {:?}", to)).with("plain", c.plain));
    }
    Ok(1 + c.plain as u64)
}

pub fn run(ctx: &Ctx) {
    // the thorough bounds of this check cost seconds, so both tiers use them (the evidence still records the tier asked for)
    let tier = if ctx.tier == Tier::Quick { Tier::Thorough } else { ctx.tier };
    // (D)
    let mut rh = vec![];
    for plain in [false, true] {
        for after in [0usize, 2, 61, 130] {
            for what in ["ping,peng", "ping", "peng", "ping,ping,peng", "ping,pong,peng", "peng,ping,peng"] {
                for from in ["unknown", "absent"] {
                    rh.push(ReplayedHandshakeCase { plain, after, what: what.to_string(), from: from.to_string() });
                }
            }
        }
    }
    sweep_list(ctx, "replayed_handshake", &rh, SweepOpts { chunk: 1, ..Default::default() }, run_replayed_handshake);
    // (A)
    let parts = 4;
    let mut batches = vec![];
    for st in STAGES {
        for part in 0..parts {
            batches.push(StageBatch { stage: st.into(), part, parts });
        }
    }
    sweep_list(ctx, "forged_object_batches", &batches, SweepOpts { chunk: 1, ..Default::default() }, |b| run_stage_batch(b, tier, Some(ctx)));
    {
        let mut fams = ctx.families.lock().unwrap();
        if let Some(f) = fams.iter_mut().find(|f| f.name == "forged_object_batches") {
            let total: u64 = STAGES.iter().map(|s| recipes(s, tier).len() as u64).sum();
            f.extra.insert("batches".into(), serde_json::json!(f.evaluations));
            f.evaluations = total;
            f.nontrivial = total; // every recipe differs from all genuine messages (identical ones are skipped and not counted as violations)
        }
    }
    // (B)
    let mut trust = vec![];
    for a_key in 0..4 {
        for a_trusts in 0..16u8 {
            for b_key in 0..4 {
                for b_trusts in 0..16u8 {
                    trust.push(TrustCase { a_key, a_trusts, b_key, b_trusts });
                }
            }
        }
    }
    sweep_list(ctx, "trust_graphs", &trust, SweepOpts { chunk: 8, ..Default::default() }, run_trust);
    // (C)
    let mut nb = vec![];
    for state in ["unknown_sender", "pending_initiator", "pending_responder", "established"] {
        for source in ["peer", "unknown"] {
            nb.push(NodeBatch { state: state.into(), source: source.into() });
        }
    }
    let st = sweep_list(ctx, "forged_node_batches", &nb, SweepOpts { chunk: 1, ..Default::default() }, |b| run_node_batch(b, tier, Some(ctx)));
    {
        let mut fams = ctx.families.lock().unwrap();
        if let Some(f) = fams.iter_mut().find(|f| f.name == "forged_node_batches") {
            f.extra.insert("batches".into(), serde_json::json!(st.evaluations));
        }
    }
    ctx.assume("Ed25519 unforgeability (ring) is trusted: the check observes that every enumerated alteration is rejected, it does not prove the signature scheme");
    ctx.assume("a truncation that the receive buffer's tail completes to the genuine message is that message (a replay, C09), not a forgery");
}

pub fn replay(family: &str, case: &Value) -> Option<CaseResult> {
    match family {
        "forged_object" => replay_with::<ObjCase>(case, run_obj),
        "forged_object_batches" => replay_with::<StageBatch>(case, |b| run_stage_batch(b, Tier::Thorough, None)),
        "trust_graphs" => replay_with::<TrustCase>(case, run_trust),
        "replayed_handshake" => replay_with::<ReplayedHandshakeCase>(case, run_replayed_handshake),
        "forged_node_batches" => replay_with::<NodeBatch>(case, |b| run_node_batch(b, Tier::Thorough, None)),
        "forged_node" => {
            let b = NodeBatch { state: case["state"].as_str()?.to_string(), source: case["source"].as_str()?.to_string() };
            Some(run_node_batch(&b, Tier::Thorough, None))
        }
        _ => None,
    }
}
