//! C16 Wire codecs round-trip, skip unknown parts, and are total.
//! E3: generated messages of every shape through encode/decode; every truncation and every byte substitution
//! of generated encodings, all short byte strings, each also with a stale tail, through the three real decoders.
use super::{common::*, replay_with, Prop};
use crate::{
    crypto::{verif as cv, Algorithms, EcdhPublicKey},
    mc::{alloc, sweep::*, CaseResult, Ctx, Fail, Tier},
    messages::{NodeInfo, PeerInfo},
    types::{Address, Range},
    util::MsgBuffer,
};
use ring::agreement::X25519;
use serde_json::Value;
use smallvec::{smallvec, SmallVec};
use std::{
    io::Cursor,
    net::{Ipv4Addr, Ipv6Addr, SocketAddr, SocketAddrV4, SocketAddrV6},
};

pub fn prop() -> Prop {
    Prop {
        id: "C16",
        title: "Wire codecs round-trip, skip unknown parts, and are total",
        level: "exploration",
        rule: "complete enumeration of: node-info shapes (peers 0..=3 and 20/21, node id present/absent, 0..=9 x 0..=9 addresses per \
               family, claims of every address length 0..=16 x 6 prefix lengths, timeout present/absent, own addresses 0..=9 per \
               family); an unknown part (3 tags x 3 lengths) inserted at every part boundary; handshake messages of every kind x \
               cipher-list shapes x payload lengths; rotation messages over key-length grids; for the three decoders every \
               truncation, every byte value at every position (structural positions in quick), all byte strings of length <= 2 \
               (3 thorough), each with and without a 64 KiB stale tail; peak heap growth per call < 1 MiB. non-trivial = the \
               decoder returned Ok and the value was compared, or a structured (non-random) malformed input",
        run,
        replay,
    }
}

const ALLOC_LIMIT: usize = 1 << 20;

// ---------- node info ----------

#[derive(Serialize, Deserialize, Clone, Debug)]
pub struct PeerShape {
    pub has_id: bool,
    pub n4: usize,
    pub n6: usize,
}

#[derive(Serialize, Deserialize, Clone, Debug)]
pub struct InfoCase {
    pub peers: Vec<PeerShape>,
    /// (address length, prefix length)
    pub claims: Vec<(u8, u8)>,
    pub timeout: Option<u16>,
    pub own4: usize,
    pub own6: usize,
    /// unknown part insertion: (boundary index, tag, length); boundary usize::MAX = none
    pub unknown: Option<(usize, u8, usize)>,
}

fn v4(i: usize, salt: u8) -> SocketAddr {
    SocketAddr::V4(SocketAddrV4::new(Ipv4Addr::new(10, salt, i as u8, 1 + i as u8), 1000 + i as u16 * 257))
}

fn v6(i: usize, salt: u8) -> SocketAddr {
    // every third IPv6 entry is an IPv4-mapped (::ffff:a.b.c.d) or IPv4-compatible (::a.b.c.d) address: still IPv6 entries
    let ip = match i % 6 {
        2 => Ipv6Addr::new(0, 0, 0, 0, 0, 0xffff, 0x0a00 | salt as u16, 0x0100 | i as u16),
        5 => Ipv6Addr::new(0, 0, 0, 0, 0, 0, 0x0a00 | salt as u16, 0x0100 | i as u16),
        _ => Ipv6Addr::new(0x2001, 0xdb8, salt as u16, i as u16, 0, 0xffff, 0, 1 + i as u16),
    };
    SocketAddr::V6(SocketAddrV6::new(ip, 2000 + i as u16 * 263, 7, 9))
}

fn addr_list(n4: usize, n6: usize, salt: u8) -> SmallVec<[SocketAddr; 4]> {
    // interleaved on purpose: the format reorders (IPv6 first)
    let mut out = smallvec![];
    let mut i4 = 0;
    let mut i6 = 0;
    while i4 < n4 || i6 < n6 {
        if i4 < n4 {
            out.push(v4(i4, salt));
            i4 += 1;
        }
        if i6 < n6 {
            out.push(v6(i6, salt));
            i6 += 1;
        }
    }
    out
}

/// The format's normalisation: first 7 IPv6 (flow/scope dropped) then first 7 IPv4.
fn norm_addrs(list: &[SocketAddr]) -> SmallVec<[SocketAddr; 4]> {
    let mut out = smallvec![];
    for a in list.iter().filter(|a| a.is_ipv6()).take(7) {
        if let SocketAddr::V6(a6) = a {
            out.push(SocketAddr::V6(SocketAddrV6::new(*a6.ip(), a6.port(), 0, 0)));
        }
    }
    for a in list.iter().filter(|a| a.is_ipv4()).take(7) {
        out.push(*a);
    }
    out
}

fn mk_claim(len: u8, prefix: u8, salt: u8) -> Range {
    let mut data = [0u8; 16];
    for i in 0..len as usize {
        data[i] = salt.wrapping_mul(31).wrapping_add(i as u8 * 7 + 1);
    }
    Range { base: Address { data, len }, prefix_len: prefix }
}

fn build_info(c: &InfoCase) -> (NodeInfo, NodeInfo) {
    let mut id = [0u8; 16];
    for (i, b) in id.iter_mut().enumerate() {
        *b = 0xa0 + i as u8;
    }
    let mut peers = smallvec![];
    let mut npeers = smallvec![];
    for (k, p) in c.peers.iter().enumerate() {
        let mut pid = [0u8; 16];
        pid[0] = k as u8;
        pid[15] = 0x77;
        let addrs = addr_list(p.n4, p.n6, k as u8);
        npeers.push(PeerInfo { node_id: if p.has_id { Some(pid) } else { None }, addrs: norm_addrs(&addrs) });
        peers.push(PeerInfo { node_id: if p.has_id { Some(pid) } else { None }, addrs });
    }
    let claims: SmallVec<[Range; 4]> = c.claims.iter().enumerate().map(|(i, (l, p))| mk_claim(*l, *p, i as u8)).collect();
    let own = addr_list(c.own4, c.own6, 200);
    let info = NodeInfo { node_id: id, peers, claims: claims.clone(), peer_timeout: c.timeout, addrs: own.clone() };
    let norm = NodeInfo { node_id: id, peers: npeers, claims, peer_timeout: c.timeout, addrs: norm_addrs(&own) };
    (info, norm)
}

/// Part boundaries (offsets where a part starts, plus the offset of the end marker) of an encoded node info.
fn part_boundaries(enc: &[u8]) -> Vec<usize> {
    let mut out = vec![];
    let mut pos = 0;
    while pos < enc.len() {
        out.push(pos);
        if enc[pos] == 0 {
            break;
        }
        let len = ((enc[pos + 1] as usize) << 8) | enc[pos + 2] as usize;
        pos += 3 + len;
    }
    out
}

fn guarded_decode_info(data: &[u8]) -> Result<Result<NodeInfo, String>, Fail> {
    alloc::reset_peak();
    let r = NodeInfo::decode(Cursor::new(data)).map_err(|e| format!("{}", e));
    let peak = alloc::peak_since_reset();
    if peak > ALLOC_LIMIT {
        return Err(Fail::new("oversized_allocation", format!("NodeInfo::decode allocated {} bytes for a {}-byte input", peak, data.len())).with("decoder", "node_info"));
    }
    Ok(r)
}

pub fn run_info(c: &InfoCase) -> CaseResult {
    let (info, norm) = build_info(c);
    let mut buf = MsgBuffer::new(SPACE);
    info.encode(&mut buf);
    let mut enc = buf.message().to_vec();
    if let Some((b, tag, len)) = c.unknown {
        let bounds = part_boundaries(&enc);
        if b >= bounds.len() {
            return Ok(0);
        }
        let at = bounds[b];
        let mut part = vec![tag, (len >> 8) as u8, len as u8];
        part.extend((0..len).map(|i| (i as u8) ^ 0x5a));
        enc.splice(at..at, part);
    }
    let dec = guarded_decode_info(&enc)?
        .map_err(|e| Fail::new("decode_failed", format!("decode(encode(x)) failed: {} for {:?}", e, c)).with("unknown_part", c.unknown.is_some()))?;
    if dec != norm {
        return Err(Fail::new("roundtrip_mismatch", format!("decoded {:?}\nexpected {:?}", dec, norm))
            .with("unknown_part", c.unknown.is_some())
            .with("max_addrs", c.peers.iter().map(|p| p.n4.max(p.n6)).max().unwrap_or(0).max(c.own4).max(c.own6) as u64));
    }
    Ok(1 + c.peers.len() as u64 + 8 * c.claims.len() as u64 + if c.unknown.is_some() { 1000 } else { 0 })
}

// ---------- decoders on malformed input ----------

#[derive(Serialize, Deserialize, Clone, Debug)]
pub struct BytesCase {
    pub decoder: String, // node_info | init | rotation
    /// how the input was made (for the reader of a counterexample)
    pub how: String,
    pub data: Vec<u8>,
    pub tail: Option<u8>,
}

fn trusted() -> ([u8; 32], std::sync::Arc<ring::signature::Ed25519KeyPair>) {
    let c = mk_crypto(node_id(1), &cfg_with_key(0, &[0], &[]), [1.0, 1.0, 1.0]).expect("crypto");
    (c.verif_trusted_keys()[0], c.verif_key_pair())
}

pub fn run_bytes(c: &BytesCase) -> CaseResult {
    let mut input = c.data.clone();
    if let Some(t) = c.tail {
        input.extend(std::iter::repeat(t).take(65535 - 200 - c.data.len().min(60000)));
    }
    alloc::reset_peak();
    let class = match c.decoder.as_str() {
        "node_info" => match NodeInfo::decode(Cursor::new(&input[..])) {
            Ok(_) => 1,
            Err(_) => 0,
        },
        "init" => {
            let (tk, _) = trusted();
            match cv::init_verif::read_from(&input, &[tk]) {
                Ok(_) => 1,
                Err(_) => 0,
            }
        }
        "rotation" => match cv::RotationMessage::read_from(Cursor::new(&input[..])) {
            Ok(_) => 1,
            Err(_) => 0,
        },
        _ => unreachable!(),
    };
    let peak = alloc::peak_since_reset();
    if peak > ALLOC_LIMIT {
        return Err(Fail::new("oversized_allocation", format!("{} decoder allocated {} bytes", c.decoder, peak)).with("decoder", c.decoder.clone()));
    }
    Ok(class)
}

// ---------- handshake messages ----------

#[derive(Serialize, Deserialize, Clone, Debug)]
pub struct InitCase {
    pub stage: u8,
    /// cipher ids in order with speeds
    pub algos: Vec<(u8, f32)>,
    pub plain: bool,
    pub key_len: usize,
    pub payload_len: usize,
}

fn build_init(c: &InitCase) -> cv::InitMsg {
    let mut hash = [0u8; 20];
    for (i, b) in hash.iter_mut().enumerate() {
        *b = 0x30 + i as u8;
    }
    let key: SmallVec<[u8; 96]> = (0..c.key_len).map(|i| (i as u8).wrapping_mul(3).wrapping_add(1)).collect();
    let ecdh = EcdhPublicKey::new(&X25519, key);
    let algorithms = Algorithms { algorithm_speeds: c.algos.iter().map(|(id, s)| (algo_by_id(*id), *s)).collect(), allow_unencrypted: c.plain };
    let mut payload = MsgBuffer::new(0);
    payload.set_length(c.payload_len);
    for (i, b) in payload.message_mut().iter_mut().enumerate() {
        *b = (i as u8) ^ 0xc3;
    }
    match c.stage {
        1 => cv::InitMsg::Ping { salted_node_id_hash: hash, ecdh_public_key: ecdh, algorithms },
        2 => cv::InitMsg::Pong { salted_node_id_hash: hash, ecdh_public_key: ecdh, algorithms, encrypted_payload: payload },
        _ => cv::InitMsg::Peng { salted_node_id_hash: hash, encrypted_payload: payload },
    }
}

fn init_fields(m: &cv::InitMsg) -> (u8, Vec<u8>, Vec<u8>, Vec<(u8, u32)>, bool, Vec<u8>) {
    let ids = |a: &Algorithms| a.algorithm_speeds.iter().map(|(al, s)| (cv::init_verif::algorithm_id(al), s.to_bits())).collect::<Vec<_>>();
    match m {
        cv::InitMsg::Ping { salted_node_id_hash, ecdh_public_key, algorithms } => {
            (1, salted_node_id_hash.to_vec(), ecdh_public_key.bytes().to_vec(), ids(algorithms), algorithms.allow_unencrypted, vec![])
        }
        cv::InitMsg::Pong { salted_node_id_hash, ecdh_public_key, algorithms, encrypted_payload } => (
            2,
            salted_node_id_hash.to_vec(),
            ecdh_public_key.bytes().to_vec(),
            ids(algorithms),
            algorithms.allow_unencrypted,
            encrypted_payload.message().to_vec(),
        ),
        cv::InitMsg::Peng { salted_node_id_hash, encrypted_payload } => {
            (3, salted_node_id_hash.to_vec(), vec![], vec![], false, encrypted_payload.message().to_vec())
        }
    }
}

fn encode_init(c: &InitCase) -> Vec<u8> {
    let (_, kp) = trusted();
    let msg = build_init(c);
    let mut out = vec![0u8; 70000];
    let n = cv::init_verif::write_to(&msg, &mut out, &kp).expect("write_to");
    out.truncate(n);
    out
}

pub fn run_init(c: &InitCase) -> CaseResult {
    let (tk, _) = trusted();
    let msg = build_init(c);
    let enc = encode_init(c);
    alloc::reset_peak();
    let (dec, key) = cv::init_verif::read_from(&enc, &[tk])
        .map_err(|e| Fail::new("decode_failed", format!("read_from(write_to(x)) failed: {} for {:?}", e, c)))?;
    let peak = alloc::peak_since_reset();
    if peak > ALLOC_LIMIT {
        return Err(Fail::new("oversized_allocation", format!("init decoder allocated {} bytes", peak)).with("decoder", "init"));
    }
    if key != tk {
        return Err(Fail::new("wrong_key", "read_from reports another signing key"));
    }
    if init_fields(&dec) != init_fields(&msg) {
        return Err(Fail::new("roundtrip_mismatch", format!("decoded {:?}\nexpected {:?}", init_fields(&dec), init_fields(&msg))));
    }
    // with a stale tail behind the message the result must be the same (the node parses the whole receive buffer)
    let mut tailed = enc.clone();
    tailed.extend(std::iter::repeat(0xffu8).take(3000));
    let (dec2, _) = cv::init_verif::read_from(&tailed, &[tk]).map_err(|e| Fail::new("decode_failed_with_tail", format!("{}", e)))?;
    if init_fields(&dec2) != init_fields(&msg) {
        return Err(Fail::new("roundtrip_mismatch_with_tail", "stale tail changed the decoded message"));
    }
    Ok(c.stage as u64 * 100 + c.algos.len() as u64 * 10 + c.plain as u64)
}

// ---------- rotation messages ----------

#[derive(Serialize, Deserialize, Clone, Debug)]
pub struct RotCase {
    pub id: u64,
    pub propose_len: usize,
    pub confirm_len: Option<usize>,
}

fn encode_rot(c: &RotCase) -> Vec<u8> {
    let p: Vec<u8> = (0..c.propose_len).map(|i| i as u8 ^ 0x11).collect();
    let q: Option<Vec<u8>> = c.confirm_len.map(|n| (0..n).map(|i| i as u8 ^ 0x22).collect());
    let msg = cv::RotationMessage::verif_new(c.id, &p, q.as_deref());
    let mut out = vec![];
    msg.write_to(&mut out).expect("write");
    out
}

pub fn run_rot(c: &RotCase) -> CaseResult {
    let p: Vec<u8> = (0..c.propose_len).map(|i| i as u8 ^ 0x11).collect();
    let q: Option<Vec<u8>> = c.confirm_len.map(|n| (0..n).map(|i| i as u8 ^ 0x22).collect());
    let enc = encode_rot(c);
    let dec = cv::RotationMessage::read_from(Cursor::new(&enc)).map_err(|e| Fail::new("decode_failed", format!("{}", e)))?;
    // normalisation of the format: an empty confirmation is "no confirmation"
    let want_q = q.clone().filter(|v| !v.is_empty());
    if dec.verif_message_id() != c.id || dec.verif_propose() != &p[..] || dec.verif_confirm().map(|v| v.to_vec()) != want_q {
        return Err(Fail::new("roundtrip_mismatch", format!("rotation message {:?} decoded differently", c)));
    }
    // the receive path hands the decoder the message followed by whatever the buffer held before (here: 0x2a bytes, then a
    // plausible "length + key" pattern): the decoded value must be the same
    for tail in [vec![0x2au8; 300], { let mut t = vec![32u8]; t.extend(std::iter::repeat(7u8).take(40)); t }, vec![0u8; 64]] {
        let mut with_tail = enc.clone();
        with_tail.extend_from_slice(&tail);
        let dec = cv::RotationMessage::read_from(Cursor::new(&with_tail)).map_err(|e| Fail::new("decode_failed", format!("with stale bytes behind the message: {}", e)))?;
        if dec.verif_message_id() != c.id || dec.verif_propose() != &p[..] || dec.verif_confirm().map(|v| v.to_vec()) != want_q {
            return Err(Fail::new("roundtrip_mismatch", format!("rotation message {:?} decoded differently when stale bytes follow it in the buffer (confirm = {:?})", c, dec.verif_confirm().map(|v| v.len()))).with("stale_tail", true));
        }
    }
    Ok(1 + c.confirm_len.is_some() as u64)
}

// ---------- enumeration ----------

fn info_cases(tier: Tier) -> Vec<InfoCase> {
    let mut v = vec![];
    let base = InfoCase { peers: vec![], claims: vec![], timeout: Some(300), own4: 1, own6: 0, unknown: None };
    // one peer: all (id, n4, n6)
    for has_id in [false, true] {
        for n4 in 0..=9 {
            for n6 in 0..=9 {
                v.push(InfoCase { peers: vec![PeerShape { has_id, n4, n6 }], ..base.clone() });
            }
        }
    }
    // own addresses 0..=9 per family, timeout present/absent
    for own4 in 0..=9 {
        for own6 in 0..=9 {
            for timeout in [None, Some(0u16), Some(65535)] {
                v.push(InfoCase { own4, own6, timeout, ..base.clone() });
            }
        }
    }
    // 0..=3 peers of mixed shapes
    let shapes = [(false, 0usize, 0usize), (true, 1, 0), (true, 0, 1), (false, 7, 7), (true, 8, 8), (true, 9, 2)];
    for a in 0..shapes.len() {
        for b in 0..shapes.len() {
            let mk = |i: usize| PeerShape { has_id: shapes[i].0, n4: shapes[i].1, n6: shapes[i].2 };
            v.push(InfoCase { peers: vec![mk(a), mk(b)], ..base.clone() });
            for c in 0..shapes.len() {
                v.push(InfoCase { peers: vec![mk(a), mk(b), mk(c)], ..base.clone() });
            }
        }
    }
    for n in [20usize, 21] {
        v.push(InfoCase { peers: (0..n).map(|i| PeerShape { has_id: i % 2 == 0, n4: 1 + i % 3, n6: i % 2 }).collect(), ..base.clone() });
    }
    // claims: every address length x prefix set, alone and in lists
    let prefixes = [0u8, 1, 8, 32, 128, 255];
    for len in 0..=16u8 {
        for p in prefixes {
            v.push(InfoCase { claims: vec![(len, p)], ..base.clone() });
            v.push(InfoCase { claims: vec![(4, 24), (len, p), (16, 64)], ..base.clone() });
        }
    }
    v.push(InfoCase { claims: (0..40).map(|i| ((i % 17) as u8, (i * 7 % 256) as u8)).collect(), ..base.clone() });
    // unknown parts at every boundary of a few messages
    let hosts = [
        InfoCase { peers: vec![PeerShape { has_id: true, n4: 2, n6: 1 }], claims: vec![(4, 24)], timeout: Some(300), own4: 1, own6: 1, unknown: None },
        InfoCase { peers: vec![], claims: vec![], timeout: None, own4: 0, own6: 0, unknown: None },
        InfoCase { peers: vec![PeerShape { has_id: false, n4: 7, n6: 7 }, PeerShape { has_id: true, n4: 0, n6: 0 }], claims: vec![(6, 48), (16, 128)], timeout: Some(1), own4: 7, own6: 7, unknown: None },
    ];
    let tags: &[u8] = tier.pick(&[6, 7, 0xfe][..], &[6, 7, 8, 0x7f, 0x80, 0xfe, 0xff][..]);
    for h in hosts {
        for b in 0..7 {
            for &tag in tags {
                for len in [0usize, 1, 300] {
                    v.push(InfoCase { unknown: Some((b, tag, len)), ..h.clone() });
                }
            }
        }
    }
    v
}

fn init_cases() -> Vec<InitCase> {
    let mut v = vec![];
    let lists: Vec<Vec<(u8, f32)>> = vec![
        vec![],
        vec![(1, 600.0)],
        vec![(3, 0.0)],
        vec![(1, 600.0), (2, 500.0), (3, 400.0)],
        vec![(3, 1.5), (1, 3e38)],
        vec![(2, 7.0), (2, 8.0)],
    ];
    for stage in 1..=3u8 {
        for algos in &lists {
            for plain in [false, true] {
                for key_len in [0usize, 1, 32, 96, 300] {
                    for payload_len in [0usize, 1, 24, 500, 4000] {
                        if stage == 3 && (!algos.is_empty() || plain || key_len != 32) {
                            continue; // peng carries neither key nor ciphers
                        }
                        if stage == 1 && payload_len != 0 {
                            continue; // ping carries no payload
                        }
                        v.push(InitCase { stage, algos: algos.clone(), plain, key_len, payload_len });
                    }
                }
            }
        }
    }
    v
}

fn rot_cases() -> Vec<RotCase> {
    let mut v = vec![];
    for id in [0u64, 1, 2, 255, 256, u64::MAX] {
        for propose_len in [0usize, 1, 31, 32, 33, 96, 255] {
            for confirm_len in [None, Some(0usize), Some(1), Some(32), Some(255)] {
                v.push(RotCase { id, propose_len, confirm_len });
            }
        }
    }
    v
}

fn malformed_cases(tier: Tier) -> Vec<BytesCase> {
    let mut v = vec![];
    let quick = tier == Tier::Quick;
    // genuine encodings per decoder
    let mut genuine: Vec<(&str, String, Vec<u8>)> = vec![];
    for (i, c) in [
        InfoCase { peers: vec![PeerShape { has_id: true, n4: 2, n6: 1 }, PeerShape { has_id: false, n4: 0, n6: 1 }], claims: vec![(4, 24), (16, 64)], timeout: Some(300), own4: 1, own6: 1, unknown: None },
        InfoCase { peers: vec![], claims: vec![], timeout: None, own4: 0, own6: 0, unknown: None },
    ]
    .iter()
    .enumerate()
    {
        let (info, _) = build_info(c);
        let mut buf = MsgBuffer::new(SPACE);
        info.encode(&mut buf);
        genuine.push(("node_info", format!("info{}", i), buf.message().to_vec()));
    }
    for (i, c) in [
        InitCase { stage: 1, algos: vec![(1, 600.0), (2, 500.0)], plain: true, key_len: 32, payload_len: 0 },
        InitCase { stage: 2, algos: vec![(3, 400.0)], plain: false, key_len: 32, payload_len: 60 },
        InitCase { stage: 3, algos: vec![], plain: false, key_len: 32, payload_len: 60 },
    ]
    .iter()
    .enumerate()
    {
        genuine.push(("init", format!("init{}", i), encode_init(c)));
    }
    for (i, c) in [RotCase { id: 1, propose_len: 32, confirm_len: None }, RotCase { id: 7, propose_len: 32, confirm_len: Some(32) }].iter().enumerate() {
        genuine.push(("rotation", format!("rot{}", i), encode_rot(c)));
    }
    let vals: Vec<u8> = if quick { vec![0, 1, 2, 3, 4, 5, 6, 7, 8, 0x38, 0x3f, 0x40, 0x7f, 0x80, 0x87, 0xbf, 0xfe, 0xff] } else { (0..=255).collect() };
    for (dec, name, enc) in &genuine {
        for tail in [None, Some(0u8), Some(0xffu8)] {
            for cut in 0..=enc.len() {
                v.push(BytesCase { decoder: dec.to_string(), how: format!("{} truncated to {}", name, cut), data: enc[..cut].to_vec(), tail });
            }
            if tail == Some(0) {
                continue;
            }
            for pos in 0..enc.len() {
                // in the signature / key material area of long messages only a few values (nothing structural there)
                for &val in &vals {
                    if val == enc[pos] {
                        continue;
                    }
                    let mut d = enc.clone();
                    d[pos] = val;
                    v.push(BytesCase { decoder: dec.to_string(), how: format!("{} byte {} := {}", name, pos, val), data: d, tail });
                }
            }
        }
    }
    v
}

/// "never a hang": seconds after which one decoder call (one case) counts as hanging
const DEADLINE: u64 = 30;

pub fn run(ctx: &Ctx) {
    let infos = info_cases(ctx.tier);
    sweep_list(ctx, "node_info_roundtrip", &infos, SweepOpts { trivial_classes: vec![0], deadline_secs: Some(DEADLINE), ..Default::default() }, run_info);
    sweep_list(ctx, "init_roundtrip", &init_cases(), SweepOpts { deadline_secs: Some(DEADLINE), ..Default::default() }, run_init);
    sweep_list(ctx, "rotation_roundtrip", &rot_cases(), SweepOpts { deadline_secs: Some(DEADLINE), ..Default::default() }, run_rot);
    let mal = malformed_cases(ctx.tier);
    sweep_list(ctx, "malformed", &mal, SweepOpts { chunk: 16, deadline_secs: Some(DEADLINE), ..Default::default() }, run_bytes);
    // all short strings, 3 decoders, with and without tail; for init the strings follow a VALID key-hash prefix
    let maxlen = ctx.tier.pick(2u32, 3u32);
    let per: u64 = (0..=maxlen).map(|l| 256u64.pow(l)).sum();
    let (tk, kp) = trusted();
    let genuine_prefix: Vec<u8> = encode_init(&InitCase { stage: 1, algos: vec![], plain: false, key_len: 32, payload_len: 0 })[..8].to_vec();
    let _ = (tk, kp);
    sweep_range(
        ctx,
        "short_strings",
        per * 3 * 2,
        SweepOpts { chunk: 512, deadline_secs: Some(DEADLINE), ..Default::default() },
        |i| {
            let dec = ["node_info", "init", "rotation"][(i % 3) as usize];
            let tail = if (i / 3) % 2 == 0 { None } else { Some(0xa5u8) };
            let mut k = i / 6;
            let mut len = 0u32;
            loop {
                let n = 256u64.pow(len);
                if k < n {
                    break;
                }
                k -= n;
                len += 1;
            }
            let mut data: Vec<u8> = if dec == "init" { genuine_prefix.clone() } else { vec![] };
            for j in (0..len).rev() {
                data.push((k >> (8 * j)) as u8);
            }
            BytesCase { decoder: dec.to_string(), how: "short string".into(), data, tail }
        },
        run_bytes,
    );
    ctx.assume("round-trip comparison uses the decoded structures' own equality (NodeInfo derives PartialEq); signature bytes of handshake messages are not structural and are covered by C01");
}

pub fn replay(family: &str, case: &Value) -> Option<CaseResult> {
    match family {
        "node_info_roundtrip" => replay_with::<InfoCase>(case, run_info),
        "init_roundtrip" => replay_with::<InitCase>(case, run_init),
        "rotation_roundtrip" => replay_with::<RotCase>(case, run_rot),
        "malformed" | "short_strings" => replay_with::<BytesCase>(case, run_bytes),
        _ => None,
    }
}
