//! C14 Full mesh from any connected bootstrap; a node never peers with itself.
//! E2 (reliable network, b = 0) over the complete space of bootstrap configurations: all connected labelled graphs on
//! 2..4 nodes (trees for 5) x every orientation per edge x NAT assignments x both salted-hash orders; self-dial
//! scenarios: all 27 "destination dialled -> source seen" maps over {real address, alias 1, alias 2}.
use super::{common::*, netsim::*, replay_with, Prop};
use crate::{
    device::Type,
    mc::{sweep::*, util, CaseResult, Ctx, Fail, Tier},
    payload::Packet,
    types::Mode,
};
use serde_json::Value;

pub fn prop() -> Prop {
    Prop {
        id: "C14",
        title: "Full mesh from any connected bootstrap; a node never peers with itself",
        level: "exploration",
        rule: "complete enumeration of: all connected labelled graphs on 2, 3 and 4 nodes (quick: trees only for 4; thorough adds all 125 labelled trees on 5) x every \
               orientation per edge (u dials v, v dials u, both) x NAT assignments (all 2^n for n <= 3; none/all/each single node for n >= 4) x both salted-hash orders, \
               each a real run on a reliable network with dial instructions registered as reconnect peers; oracle: if the usable bootstrap graph is connected every \
               pair is mutually connected within n announcement intervals + 10 s, and at every second no node has a peer with its own node id or one of its own \
               addresses. Self-dial: a node dials alias X while the network shows it source Y for every one of the 27 maps over {real, alias1, alias2}, alone and as \
               member of a 3-mesh reached through the alias. Multi-homed: node 0 with 0..9 advertise-addresses (v4/v6/mixed), optionally behind a forwarded port that node 2 cannot reach, node 2 optionally NATed: full mesh, one session per pair, alias adopted, payload between all pairs. non-trivial = usable bootstrap graph connected / self-addressed datagram delivered",
        run,
        replay,
    }
}

#[derive(Serialize, Deserialize, Clone, Debug)]
pub struct MeshCase {
    pub n: usize,
    /// (u, v, orientation): 0 = u dials v, 1 = v dials u, 2 = both
    pub edges: Vec<(usize, usize, u8)>,
    pub nat: Vec<bool>,
    pub reverse_salts: bool,
    /// this node is down (neither sends nor receives) for the first 130 s - longer than a handshake's retry budget
    #[serde(default)]
    pub late: Option<usize>,
    /// all nodes configured with `algorithms: [plain]` (unencrypted mesh)
    #[serde(default)]
    pub plain: bool,
}

fn no_self_peering(net: &Net<Packet>) -> Result<(), Fail> {
    for i in 0..net.nodes.len() {
        let own_id = net.nodes[i].verif_node_id();
        let own = net.nodes[i].verif_own_addresses();
        for p in net.nodes[i].verif_peers() {
            if p.node_id == own_id {
                return Err(Fail::new("self_peering", format!("node {} has a peer at {} with its own node id", i, p.addr)).with("by", "node_id"));
            }
            if own.contains(&p.addr) || p.addr == net.addrs[i] {
                return Err(Fail::new("self_peering", format!("node {} has a peer at one of its own addresses {}", i, p.addr)).with("by", "address"));
            }
        }
    }
    Ok(())
}

pub fn run_mesh(c: &MeshCase) -> CaseResult {
    let mut net = Net::<Packet>::new();
    net.reverse_salts = c.reverse_salts;
    for i in 0..c.n {
        let mut cfg = base_config(Mode::Router, Type::Tun, 0, &[0]);
        cfg.claims = vec![format!("10.{}.0.0/16", i)];
        if c.plain {
            cfg.crypto.algorithms = vec!["plain".to_string()];
        }
        net.add_node(&cfg, c.nat[i]);
    }
    let addrs = net.addrs.clone();
    // usable bootstrap edges: a dial reaches its target unless the target sits behind an address-filtering NAT and does not
    // dial back
    let mut usable = vec![vec![false; c.n]; c.n];
    for &(u, v, o) in &c.edges {
        let u_dials = o == 0 || o == 2;
        let v_dials = o == 1 || o == 2;
        let ok = (u_dials && !c.nat[v]) || (v_dials && !c.nat[u]) || (u_dials && v_dials);
        if ok {
            usable[u][v] = true;
            usable[v][u] = true;
        }
        if u_dials {
            net.configure_peer(u, addrs[v]);
        }
        if v_dials {
            net.configure_peer(v, addrs[u]);
        }
    }
    // connectivity of the usable graph
    let mut seen = vec![false; c.n];
    let mut stack = vec![0];
    seen[0] = true;
    while let Some(x) = stack.pop() {
        for y in 0..c.n {
            if usable[x][y] && !seen[y] {
                seen[y] = true;
                stack.push(y);
            }
        }
    }
    let connected = seen.iter().all(|s| *s);
    if let Some(l) = c.late {
        net.silenced[l] = true;
        net.queue.retain(|w| w.from != addrs[l]);
        for _ in 0..130 {
            net.tick();
            net.deliver_all(1024);
            net.queue.retain(|w| w.from != addrs[l]);
        }
        net.silenced[l] = false;
    }
    net.deliver_all(1024);
    no_self_peering(&net)?;
    let interval = 90; // default keepalive for the default peer timeout of 300 s
    let horizon = c.n * interval + 10 + if c.late.is_some() { 60 } else { 0 };
    let mut meshed_at: Option<usize> = None;
    for t in 1..=horizon {
        net.tick();
        if !net.deliver_all(1024) {
            // bounded delivery rate; the rest stays queued
        }
        no_self_peering(&net)?;
        if meshed_at.is_none() && net.fully_meshed() {
            meshed_at = Some(t);
        }
        if let Some(m) = meshed_at {
            if t >= m + 5 {
                break;
            }
        }
    }
    if let Some((i, e)) = net.housekeep_errors.first() {
        return Err(Fail::new("housekeep_error", format!("node {}: {}", i, e)));
    }
    if !connected {
        return Ok(0);
    }
    match meshed_at {
        Some(t) => {
            if !net.fully_meshed() {
                return Err(Fail::new("mesh_lost", "full mesh formed and fell apart again within 5 s"));
            }
            Ok(1 + (t as u64 / 10))
        }
        None => {
            let missing: Vec<(usize, usize)> = (0..c.n).flat_map(|i| (0..c.n).map(move |j| (i, j))).filter(|(i, j)| i != j && !net.connected(*i, *j)).collect();
            Err(Fail::new("no_full_mesh", format!("after {} s the pairs {:?} are not connected (edges {:?}, nat {:?})", horizon, missing, c.edges, c.nat))
                .with("any_nat", c.nat.iter().any(|x| *x))
                .with("late_joiner", c.late.is_some())
                .with("plain", c.plain)
                .with("n", c.n as u64))
        }
    }
}

// ---------- nodes with several addresses ----------

#[derive(Serialize, Deserialize, Clone, Debug)]
pub struct HomedCase {
    /// number of `advertise-addresses` configured at node 0 (none of them routable in the simulated network)
    pub advertised: usize,
    /// 4 = IPv4 entries, 6 = IPv6 entries, 10 = alternating
    pub family: u8,
    /// node 1 dials node 0 through a forwarded port (an alias address); node 2 cannot reach that alias, only the real address
    pub forwarded: bool,
    /// node 2 sits behind an address-filtering NAT (it must dial out itself)
    pub nat2: bool,
    /// who opens the 1-2 edge: 0 = node 2 dials node 1, 1 = node 1 dials node 2 (impossible with nat2), 2 = both
    pub edge12: u8,
}

/// A node that is known under several addresses (configured `advertise-addresses`, a forwarded port that only some peers can
/// reach) still becomes a full member of the mesh, adopts what peers list under its id, and is dialled on an address that works.
pub fn run_homed(c: &HomedCase) -> CaseResult {
    let mut net = Net::<Packet>::new();
    let mut adv = vec![];
    for k in 0..c.advertised {
        let v4 = c.family == 4 || (c.family == 10 && k % 2 == 0);
        adv.push(if v4 { format!("192.0.2.{}:3210", k + 1) } else { format!("[2001:db8::{}]:3210", k + 1) });
    }
    for i in 0..3 {
        let mut cfg = base_config(Mode::Router, Type::Tun, 0, &[0]);
        cfg.claims = vec![format!("10.{}.0.0/16", i)];
        if i == 0 {
            cfg.advertise_addresses = adv.clone();
        }
        net.add_node(&cfg, i == 2 && c.nat2);
    }
    let addrs = net.addrs.clone();
    let alias: std::net::SocketAddr = "[::]:201".parse().unwrap();
    if c.forwarded {
        net.aliases = vec![(alias, 0)];
        net.blackhole = vec![(2, alias)];
    }
    // node 0 knows its advertised addresses from the start
    let own0 = net.nodes[0].verif_own_addresses();
    for a in &adv {
        let parsed: std::net::SocketAddr = a.parse().unwrap();
        if !own0.contains(&parsed) {
            return Err(Fail::new("advertised_not_own", format!("configured advertise address {} is not in the node's own-address list {:?}", a, own0)));
        }
    }
    net.configure_peer(1, if c.forwarded { alias } else { addrs[0] });
    if c.edge12 == 0 || c.edge12 == 2 {
        net.configure_peer(2, addrs[1]);
    }
    if c.edge12 == 1 || c.edge12 == 2 {
        net.configure_peer(1, addrs[2]);
    }
    net.deliver_all(1024);
    let horizon = 3 * 90 + 10;
    let mut meshed_at = None;
    for t in 1..=horizon {
        net.tick();
        net.deliver_all(1024);
        no_self_peering(&net)?;
        // "fully meshed" by node id: node 0 may be known to node 1 under its alias
        let ids: Vec<_> = (0..3).map(|i| net.nodes[i].verif_node_id()).collect();
        let meshed = (0..3).all(|i| (0..3).all(|j| i == j || net.nodes[i].verif_peers().iter().any(|p| p.node_id == ids[j])));
        if meshed && meshed_at.is_none() {
            meshed_at = Some(t);
        }
        if let Some(m) = meshed_at {
            if t >= m + 5 {
                break;
            }
        }
    }
    if let Some((i, e)) = net.housekeep_errors.first() {
        return Err(Fail::new("housekeep_error", format!("node {}: {}", i, e)));
    }
    let tag = |f: Fail| f.with("advertised", c.advertised as u64).with("forwarded", c.forwarded).with("nat2", c.nat2);
    if meshed_at.is_none() {
        let ids: Vec<_> = (0..3).map(|i| net.nodes[i].verif_node_id()).collect();
        let missing: Vec<(usize, usize)> = (0..3).flat_map(|i| (0..3).map(move |j| (i, j))).filter(|(i, j)| i != j && !net.nodes[*i].verif_peers().iter().any(|p| p.node_id == ids[*j])).collect();
        return Err(tag(Fail::new("no_full_mesh", format!("after {} s the pairs {:?} are not connected", horizon, missing))));
    }
    // one session per pair (the open finding F15 of C10 is about ROUTABLE second addresses; here every second address is dead
    // or unreachable for the node that would double-dial)
    for i in 0..3 {
        let n = net.nodes[i].verif_peers().len();
        if n != 2 {
            return Err(tag(Fail::new("peer_count", format!("node {} holds {} peer entries in a 3-node mesh", i, n))));
        }
    }
    if c.forwarded && !net.nodes[0].verif_own_addresses().contains(&alias) {
        return Err(tag(Fail::new("alias_not_adopted", format!("node 1 reaches node 0 through {} and lists it under node 0's id, but node 0's own addresses are {:?}", alias, net.nodes[0].verif_own_addresses()))));
    }
    // payload flows between every pair
    for i in 0..3usize {
        for j in 0..3usize {
            if i == j {
                continue;
            }
            for k in 0..3 {
                net.pop_frames(k);
            }
            let pkt = ipv4_packet([10, i as u8, 0, 1], [10, j as u8, 0, 1], b"multi-homed mesh probe");
            net.put_frame(i, pkt.clone()).map_err(|e| tag(Fail::new("send_error", format!("{} -> {}: {}", i, j, e))))?;
            net.deliver_all(64);
            if net.pop_frames(j) != vec![pkt] {
                return Err(tag(Fail::new("payload_lost", format!("meshed, but a packet {} -> {} is not delivered", i, j))));
            }
        }
    }
    Ok(1 + meshed_at.unwrap() as u64 / 30)
}

// ---------- self dial ----------

#[derive(Serialize, Deserialize, Clone, Debug)]
pub struct SelfCase {
    /// source seen when dialling [real, alias1, alias2]; values 0 = real, 1 = alias1, 2 = alias2
    pub map: [u8; 3],
    /// which alias is dialled (1 or 2; 3 = both at the same time)
    pub dial: u8,
    /// embed the node in a 3-mesh whose other members reach it through alias 1
    pub in_mesh: bool,
    /// in a mesh: the node dials its alias BEFORE the other members connect (its self-handshake is pending when they first
    /// list the alias under its id)
    #[serde(default)]
    pub dial_first: bool,
}

pub fn run_self(c: &SelfCase) -> CaseResult {
    let mut net = Net::<Packet>::new();
    let n = if c.in_mesh { 3 } else { 1 };
    for i in 0..n {
        let mut cfg = base_config(Mode::Router, Type::Tun, 0, &[0]);
        cfg.claims = vec![format!("10.{}.0.0/16", i)];
        net.add_node(&cfg, false);
    }
    let real = net.addrs[0];
    let a1 = addr_of(201);
    let a2 = addr_of(202);
    let pick = |x: u8| [real, a1, a2][x as usize];
    net.aliases = vec![(a1, 0), (a2, 0)];
    net.self_source = vec![(real, pick(c.map[0])), (a1, pick(c.map[1])), (a2, pick(c.map[2]))];
    let join = |net: &mut Net<Packet>| {
        // the other members know node 0 only by its alias 1
        net.configure_peer(1, a1);
        net.configure_peer(2, a1);
        net.deliver_all(512);
        for _ in 0..3 {
            net.tick();
            net.deliver_all(512);
        }
    };
    if c.in_mesh && !c.dial_first {
        join(&mut net);
    }
    if c.dial == 3 {
        // both aliases are dialled in the same instant: two initiator objects of the same node are pending
        net.with_node(0, |n| {
            n.connect(a1).expect("connect");
            n.connect(a2).expect("connect");
            n.add_reconnect_peer(format!("{}", a1));
            n.add_reconnect_peer(format!("{}", a2));
        });
    } else {
        let target = if c.dial == 1 { a1 } else { a2 };
        net.configure_peer(0, target);
    }
    let mut delivered_to_self = net.queue.iter().any(|w| w.from == real && net.node_index(&w.to) == Some(0));
    if c.in_mesh && c.dial_first {
        delivered_to_self |= !net.deliver_all(512);
        join(&mut net);
    }
    // in a mesh the run covers the periodic reset of the own-address list (300 s) and the announcement after it
    let horizon = if c.in_mesh { 420 } else { 200 };
    for t in 0..horizon {
        if !net.deliver_all(512) {
            return Err(Fail::new("livelock", "a node keeps answering its own handshake datagrams (more than 512 deliveries in one second)"));
        }
        no_self_peering(&net).map_err(|f| f.with("map", format!("{:?}", c.map)).with("in_mesh", c.in_mesh))?;
        net.tick();
        delivered_to_self |= net.queue.iter().any(|w| w.from == real && net.node_index(&w.to) == Some(0));
        // one announcement interval (90 s) after the members joined they have listed the alias under node 0's id
        if c.in_mesh && t == 100 && !net.nodes[0].verif_own_addresses().contains(&a1) {
            return Err(Fail::new("alias_not_adopted", format!("100 s after the other members joined through {} it is still not in node 0's own-address list {:?}", a1, net.nodes[0].verif_own_addresses())).with("when", "after_one_interval"));
        }
    }
    if c.in_mesh {
        // addresses that peers list under the node's own identity are adopted as its own
        if !net.nodes[0].verif_own_addresses().contains(&a1) {
            return Err(Fail::new("alias_not_adopted", format!("peers reach node 0 through {} and list it under node 0's id, but it is not in the own-address list {:?}", a1, net.nodes[0].verif_own_addresses())));
        }
        // (connectivity by node id: the others know node 0 under its alias)
        let ids: Vec<_> = (0..3).map(|i| net.nodes[i].verif_node_id()).collect();
        for i in 0..3 {
            let peer_ids: Vec<_> = net.nodes[i].verif_peers().iter().map(|p| p.node_id).collect();
            for j in 0..3 {
                if i != j && !peer_ids.contains(&ids[j]) {
                    return Err(Fail::new("no_full_mesh", format!("3-mesh through the alias did not form: node {} has no peer with node {}'s id", i, j)));
                }
            }
        }
    }
    Ok(if delivered_to_self { 1 } else { 0 })
}

// ---------- enumeration ----------

fn connected_graphs(n: usize, trees_only: bool) -> Vec<Vec<(usize, usize)>> {
    let mut all_edges = vec![];
    for u in 0..n {
        for v in (u + 1)..n {
            all_edges.push((u, v));
        }
    }
    let mut out = vec![];
    for mask in 1u32..(1 << all_edges.len()) {
        let edges: Vec<(usize, usize)> = all_edges.iter().enumerate().filter(|(i, _)| mask & (1 << i) != 0).map(|(_, e)| *e).collect();
        if trees_only && edges.len() != n - 1 {
            continue;
        }
        // connectivity
        let mut seen = vec![false; n];
        let mut stack = vec![0];
        seen[0] = true;
        while let Some(x) = stack.pop() {
            for &(u, v) in &edges {
                let y = if u == x {
                    v
                } else if v == x {
                    u
                } else {
                    continue;
                };
                if !seen[y] {
                    seen[y] = true;
                    stack.push(y);
                }
            }
        }
        if seen.iter().all(|s| *s) {
            out.push(edges);
        }
    }
    out
}

fn mesh_cases(tier: Tier) -> Vec<MeshCase> {
    let mut v = vec![];
    let sizes: Vec<(usize, bool)> = match tier {
        Tier::Quick => vec![(2, false), (3, false), (4, true)],
        Tier::Thorough => vec![(2, false), (3, false), (4, false), (5, true)],
    };
    for (n, trees_only) in sizes {
        let nats: Vec<Vec<bool>> = if n <= 3 {
            (0..(1u32 << n)).map(|m| (0..n).map(|i| m & (1 << i) != 0).collect()).collect()
        } else {
            let mut x = vec![vec![false; n], vec![true; n]];
            if tier == Tier::Thorough || n == 4 {
                for i in 0..n {
                    let mut y = vec![false; n];
                    y[i] = true;
                    x.push(y);
                }
            }
            x
        };
        for g in connected_graphs(n, trees_only) {
            let combos = 3usize.pow(g.len() as u32);
            for o in 0..combos {
                let mut edges = vec![];
                let mut x = o;
                for &(u, w) in &g {
                    edges.push((u, w, (x % 3) as u8));
                    x /= 3;
                }
                for nat in &nats {
                    if tier == Tier::Quick && n == 4 && nat.iter().filter(|b| **b).count() == 1 && o % 3 != 0 {
                        continue;
                    }
                    for reverse_salts in [false, true] {
                        if n >= 5 && reverse_salts && o % 2 == 1 {
                            continue;
                        }
                        v.push(MeshCase { n, edges: edges.clone(), nat: nat.clone(), reverse_salts, late: None, plain: false });
                        if n >= 3 && !reverse_salts && !nat.iter().any(|x| *x) {
                            v.push(MeshCase { n, edges: edges.clone(), nat: nat.clone(), reverse_salts, late: None, plain: true });
                        }
                        if n == 3 && !reverse_salts {
                            for l in 0..3 {
                                v.push(MeshCase { n, edges: edges.clone(), nat: nat.clone(), reverse_salts, late: Some(l), plain: false });
                            }
                        }
                    }
                }
            }
        }
    }
    v
}

pub fn run(ctx: &Ctx) {
    let meshes = mesh_cases(ctx.tier);
    sweep_list(ctx, "bootstrap_graphs", &meshes, SweepOpts { chunk: 1, trivial_classes: vec![0], ..Default::default() }, run_mesh);
    let mut selfs = vec![];
    for m in 0..27u8 {
        for dial in [1u8, 2, 3] {
            for in_mesh in [false, true] {
                selfs.push(SelfCase { map: [m % 3, (m / 3) % 3, m / 9], dial, in_mesh, dial_first: false });
            }
            selfs.push(SelfCase { map: [m % 3, (m / 3) % 3, m / 9], dial, in_mesh: true, dial_first: true });
        }
    }
    let mut homed = vec![];
    for advertised in [0usize, 1, 2, 6, 7, 8, 9] {
        for family in [4u8, 6, 10] {
            if advertised == 0 && family != 4 {
                continue;
            }
            for (forwarded, nat2, edge12) in [(false, false, 0u8), (false, true, 0), (true, false, 0), (true, true, 0), (true, false, 1), (true, false, 2), (true, true, 2)] {
                // The peer-exchange format carries at most 7 addresses per family and entry (C16's normalisation). A node with
                // more IPv6 addresses than that (advertised + forwarded alias + socket address) loses its socket address in
                // what others pass on; a NATed third node that can reach ONLY that address then has no usable way in - the
                // bootstrap is not connected in the sense of the statement. (First version of this family raised an alarm here.)
                let v6 = (0..advertised).filter(|k| family == 6 || (family == 10 && k % 2 == 1)).count() + 1 + forwarded as usize;
                if forwarded && nat2 && v6 > 7 {
                    continue;
                }
                homed.push(HomedCase { advertised, family, forwarded, nat2, edge12 });
            }
        }
    }
    sweep_list(ctx, "multi_homed", &homed, SweepOpts { chunk: 1, ..Default::default() }, run_homed);
    sweep_list(ctx, "self_dial", &selfs, SweepOpts { chunk: 1, trivial_classes: vec![0], ..Default::default() }, run_self);
    ctx.assume("reliable network (no loss, FIFO, delivery to quiescence every second with a bound of 1024 datagrams per second)");
    ctx.assume("a dial instruction is usable if its target is not behind an address-filtering NAT or dials back; configurations whose usable bootstrap graph is not connected are outside the statement (counted as trivial) but still checked for self-peering");
}

pub fn replay(family: &str, case: &Value) -> Option<CaseResult> {
    match family {
        "bootstrap_graphs" => replay_with::<MeshCase>(case, run_mesh),
        "self_dial" => replay_with::<SelfCase>(case, run_self),
        "multi_homed" => replay_with::<HomedCase>(case, run_homed),
        _ => None,
    }
}
