//! C15 Silent peers time out; healthy peers never do, for every timeout setting.
//! E3+E2: (a) announcement interval of a REAL node as a function of (own timeout, own keepalive, advertised timeouts of
//! its peers) over the complete grid; (b) heterogeneous 3-node meshes; (c) silence from every second t; (d) 48 h of
//! reconnect back-off.
use super::{common::*, netsim::*, replay_with, Prop};
use crate::{
    device::Type,
    mc::{sweep::*, util, CaseResult, Ctx, Fail, Tier},
    payload::Packet,
    types::Mode,
};
use serde_json::Value;

pub fn prop() -> Prop {
    Prop {
        id: "C15",
        title: "Silent peers time out; healthy peers never do, for every timeout setting",
        level: "exploration",
        rule: "complete enumeration of: (a) own peer timeout {0,1,59,60,119,120,121,300,65535} x own keepalive {unset,0,1,59,600,65535,100000} x advertised timeout \
               (0..=400 and 16-bit boundary values quick; all 65536 thorough) x {one peer, plus a second peer advertising 300}: a real node is built, a scripted peer \
               connects advertising v, the announcing housekeep runs, the scheduled delay is read and compared (1 s, or strictly below the smallest advertised \
               timeout); (b) 3-node meshes with every timeout triple from the grid run for 3x the largest timeout: nobody is ever disconnected; (c) one node of a \
               3-mesh silenced from second t, for every t in 0..=200 (equal and different timeouts of waiting and silent node): removed with its routes at the first housekeep after last refresh + timeout, then re-dialled; \
               (c2) the same silence in a learning switch mesh without claims: routes learned from the silent node go at the tick that removes it; (d) one unreachable configured peer for 48 h: dial gaps <= 3600 s and dialling never stops. non-trivial = node reached the announcing housekeep",
        run,
        replay,
    }
}

#[derive(Serialize, Deserialize, Clone, Debug)]
pub struct IntervalCase {
    pub own_timeout: u32,
    pub keepalive: Option<u32>,
    pub advertised: u16,
    pub second_peer: bool,
}

pub fn run_interval(c: &IntervalCase) -> CaseResult {
    let mut cfg = base_config(Mode::Router, Type::Tun, 0, &[0]);
    cfg.peer_timeout = c.own_timeout;
    cfg.keepalive = c.keepalive;
    let tag = |f: Fail| {
        f.with("own_timeout_below_120", c.own_timeout < 120)
            .with("keepalive_set", c.keepalive.is_some())
            .with("advertised_below_120", c.advertised < 120)
    };
    let built = util::catch(|| {
        let mut net = Net::<Packet>::new();
        net.add_node(&cfg, false);
        net
    });
    let mut net = match built {
        Ok(n) => n,
        Err(p) => return Err(tag(Fail::from_panic(&p).with("phase", "construction"))),
    };
    let r = util::catch(|| -> Result<u64, Fail> {
        let mut s = Scripted::new(50, 50, 0, &[0], &[], Some(c.advertised));
        if !s.connect(&mut net, 0) {
            return Err(Fail::new("harness", "scripted peer could not connect"));
        }
        let mut min_adv_configured = c.advertised;
        if c.second_peer {
            let mut s2 = Scripted::new(51, 51, 0, &[0], &[], Some(300));
            if !s2.connect(&mut net, 0) {
                return Err(Fail::new("harness", "second scripted peer could not connect"));
            }
            min_adv_configured = min_adv_configured.min(300);
        }
        // the next housekeep announces (next_peers starts at the node's start time) and schedules the next announcement
        net.tick();
        let now = net.now;
        let next = net.nodes[0].verif_next_peers();
        if let Some((_, e)) = net.housekeep_errors.first() {
            return Err(Fail::new("housekeep_error", format!("housekeep failed: {}", e)));
        }
        let delay = (next - now).max(1); // housekeeping runs once per second: a delay of 0 is "next tick"
        // "the smallest timeout advertised by its CURRENT peers" (an own timeout of 0 or 1 drops the peer before the announcement)
        let min_adv = match net.nodes[0].verif_peers().iter().map(|p| p.peer_timeout).min() {
            Some(m) => m,
            None => return Ok(0),
        };
        let _ = min_adv_configured;
        if !(delay == 1 || delay < min_adv as i64) {
            return Err(Fail::new(
                "interval_too_long",
                format!("own timeout {} keepalive {:?}, peers advertise min {}: next announcement in {} s", c.own_timeout, c.keepalive, min_adv, delay),
            ));
        }
        // a peer that hears nothing is dropped exactly after the OWN timeout (checked on a few settings in family (c))
        Ok(if delay == 1 { 1 } else { 2 })
    });
    match r {
        Ok(x) => x.map_err(tag),
        Err(p) => Err(tag(Fail::from_panic(&p).with("phase", "housekeep"))),
    }
}

#[derive(Serialize, Deserialize, Clone, Debug)]
pub struct ChurnCase {
    pub own_timeout: u32,
    pub keepalive: Option<u32>,
    /// advertised timeouts of the peers that are connected one after the other (each leaves when the next joins)
    pub advertised: Vec<u16>,
    /// true: the old peer leaves by a close message; false: it is still there when the new one joins, then closes
    pub close_first: bool,
    /// the peers are incarnations of ONE node address: each next one is a restart (new node id, other advertised timeout) that
    /// dials while the node still holds the entry of the previous incarnation; nobody sends a close message
    #[serde(default)]
    pub same_address: bool,
}

/// Membership changes between two announcements: at EVERY announcement the scheduled delay must respect the peers
/// connected at that moment.
pub fn run_churn(c: &ChurnCase) -> CaseResult {
    let mut cfg = base_config(Mode::Router, Type::Tun, 0, &[0]);
    cfg.peer_timeout = c.own_timeout;
    cfg.keepalive = c.keepalive;
    let mut net = Net::<Packet>::new();
    net.add_node(&cfg, false);
    let mut current: Option<Scripted> = None;
    let mut announcements = 0u64;
    let check = |net: &mut Net<Packet>, announcements: &mut u64| -> Result<(), Fail> {
        // run until the next announcement is due and has been made
        let due = net.nodes[0].verif_next_peers();
        let mut guard = 0;
        while net.now < due || net.nodes[0].verif_next_peers() == due {
            net.tick();
            net.queue.clear();
            guard += 1;
            if guard > 2000 {
                return Ok(()); // no announcement within the horizon: nothing was scheduled, nothing to judge
            }
        }
        let delay = (net.nodes[0].verif_next_peers() - net.now).max(1);
        if let Some(m) = net.nodes[0].verif_peers().iter().map(|p| p.peer_timeout).min() {
            *announcements += 1;
            if !(delay == 1 || delay < m as i64) {
                return Err(Fail::new("interval_too_long", format!("announcement at t=+{}: next one in {} s although a current peer advertises {}", net.now - START_TIME, delay, m)).with("churn", true));
            }
        }
        Ok(())
    };
    for (k, adv) in c.advertised.iter().enumerate() {
        let mut s = Scripted::new(if c.same_address { 50 } else { 50 + k as u16 }, 50 + k as u8, 0, &[0], &[], Some(*adv));
        if c.same_address {
            // the previous incarnation's handshake must be over (the node lingers 60 s as initiator, not at all as responder)
            for _ in 0..62 {
                net.tick();
                net.queue.clear();
            }
            if k > 0 && (net.nodes[0].verif_peers().is_empty() || !net.nodes[0].verif_pending().is_empty()) {
                // the node's own timeout expired the previous incarnation while waiting (it is re-dialling the address itself):
                // a restart next to a LIVE entry is what this variant is about
                return Ok(announcements);
            }
            if !s.connect(&mut net, 0) {
                return Err(Fail::new("harness", "restarted scripted peer could not connect"));
            }
            match net.nodes[0].verif_peers().iter().find(|p| p.addr == s.addr) {
                Some(p) if p.peer_timeout == *adv => {}
                other => {
                    return Err(Fail::new("advertised_timeout_not_taken", format!("restart on the same address advertising {}: the node's entry says {:?}", adv, other.map(|p| p.peer_timeout))).with("churn", true).with("same_address", true))
                }
            }
            current = Some(s);
            check(&mut net, &mut announcements)?;
            check(&mut net, &mut announcements)?;
            continue;
        }
        if c.close_first {
            if let Some(old) = current.as_mut() {
                old.send(&mut net, 0, crate::messages::MESSAGE_TYPE_CLOSE, &[]);
            }
        }
        if !s.connect(&mut net, 0) {
            return Err(Fail::new("harness", "scripted peer could not connect"));
        }
        if !c.close_first {
            if let Some(old) = current.as_mut() {
                old.send(&mut net, 0, crate::messages::MESSAGE_TYPE_CLOSE, &[]);
            }
        }
        current = Some(s);
        // keep the current peer alive while waiting (keepalives every second are cheap)
        check(&mut net, &mut announcements)?;
        if net.nodes[0].verif_peers().is_empty() {
            // own timeout expired the peer while waiting: re-connect is not part of this family
            continue;
        }
        check(&mut net, &mut announcements)?;
    }
    Ok(announcements)
}

#[derive(Serialize, Deserialize, Clone, Debug)]
pub struct MeshCase {
    pub timeouts: Vec<u32>,
    /// unencrypted mesh
    #[serde(default)]
    pub plain: bool,
}

pub fn run_mesh(c: &MeshCase) -> CaseResult {
    let cfgs: Vec<_> = c
        .timeouts
        .iter()
        .enumerate()
        .map(|(i, t)| {
            let mut cfg = base_config(Mode::Router, Type::Tun, 0, &[0]);
            cfg.peer_timeout = *t;
            cfg.claims = vec![format!("10.{}.0.0/16", i)];
            if c.plain {
                cfg.crypto.algorithms = vec!["plain".to_string()];
            }
            cfg
        })
        .collect();
    let r = util::catch(|| -> Result<u64, Fail> {
        let mut net = Net::<Packet>::mesh(&cfgs, 3);
        // "stable membership": every node must have scheduled at least one announcement while knowing all its peers.
        // The longest possible interval is the largest default keepalive (own timeout / 2 - 60); settle for twice that.
        let longest = c.timeouts.iter().map(|t| (t / 2).saturating_sub(60).max(1)).max().unwrap() as usize;
        for _ in 0..(2 * longest + 130) {
            net.tick();
            net.deliver_all(512); // bounded rate; what is left stays queued
        }
        if !net.fully_meshed() {
            return Err(Fail::new("no_mesh", format!("timeouts {:?}: no full mesh after the settle phase of {} s", c.timeouts, 2 * longest + 130)));
        }
        let horizon = 3 * *c.timeouts.iter().max().unwrap() as usize + 10;
        net.capture = Some(vec![]);
        for _ in 0..horizon {
            net.tick();
            net.deliver_all(512);
            if !net.fully_meshed() {
                let t = net.now - START_TIME;
                return Err(Fail::new("healthy_peer_dropped", format!("timeouts {:?}: a healthy peer was disconnected at t=+{} (stable membership since the settle phase)", c.timeouts, t)));
            }
            // a peer that is dropped and re-dialled within one second is "connected" again when we look: but nobody opens a
            // handshake (ping = stage 1 in byte 12) in a mesh whose members all know each other unless it dropped somebody
            let cap = net.capture.as_mut().unwrap();
            if let Some(w) = cap.iter().find(|w| w.data.first() == Some(&0xff) && w.data.len() > 12 && w.data[12] == 1) {
                let t = net.now - START_TIME;
                return Err(Fail::new("healthy_peer_dropped", format!("timeouts {:?}: {} re-dialled {} at t=+{} (it had timed the healthy peer out)", c.timeouts, w.from, w.to, t)).with("redialled", true));
            }
            cap.clear();
        }
        Ok(1)
    });
    let tag = |f: Fail| f.with("some_timeout_below_120", c.timeouts.iter().any(|t| *t < 120));
    match r {
        Ok(x) => x.map_err(tag),
        Err(p) => Err(tag(Fail::from_panic(&p))),
    }
}

/// Silence in a learning (switch/tap) mesh without claims: the routes of the silent node are the addresses LEARNED from its
/// traffic (fresh for `switch_timeout`, which is longer than the peer timeout here). They must go with the peer.
pub fn run_silence_learned(c: &SilenceCase) -> CaseResult {
    use crate::payload::Frame;
    let cfgs: Vec<_> = (0..3)
        .map(|_| {
            let mut cfg = base_config(Mode::Switch, Type::Tap, 0, &[0]);
            cfg.peer_timeout = c.timeout;
            cfg.switch_timeout = c.timeout * 4 + 1000;
            cfg
        })
        .collect();
    let mut net = Net::<Frame>::mesh(&cfgs, 2);
    if !net.fully_meshed() {
        return Err(Fail::new("no_mesh", "mesh did not form"));
    }
    let station = [2u8, 0, 0, 0, 0x77, 1];
    for _ in 0..c.from_second {
        net.run(1);
    }
    // a station behind node 2 speaks (broadcast): nodes 0 and 1 learn it; then node 2 falls silent
    net.put_frame(2, eth_frame([0xff; 6], station, None, b"station behind the node that will fall silent")).map_err(|e| Fail::new("send_error", format!("{}", e)))?;
    net.deliver_all(64);
    for i in 0..3 {
        net.pop_frames(i);
    }
    let victim = net.addrs[2];
    if !net.nodes[0].verif_table().verif_cache().iter().any(|e| e.1 == victim) {
        return Err(Fail::new("not_learned", "node 0 did not learn the station address from node 2's frame"));
    }
    net.silenced[2] = true;
    let view = net.nodes[0].verif_peers().into_iter().find(|p| p.addr == victim).ok_or_else(|| Fail::new("no_mesh", "victim is no peer when the silence starts"))?;
    let expiry_0 = view.timeout;
    let mut removed = false;
    for _ in 0..(c.timeout as i64 + 5) {
        net.tick();
        net.deliver_all(512);
        let connected = net.nodes[0].verif_is_connected(&victim);
        if connected && net.now > expiry_0 {
            return Err(Fail::new("silent_peer_kept", format!("still a peer at +{} although its timeout expired at +{}", net.now - START_TIME, expiry_0 - START_TIME)).with("mode", "switch"));
        }
        if !connected {
            removed = true;
            // with its routes, at this very tick
            if let Some(e) = net.nodes[0].verif_table().verif_cache().iter().find(|e| e.1 == victim) {
                return Err(Fail::new("routes_kept", format!("node 0 still maps the learned address {} to the peer it just removed ({} s of freshness left)", e.0, e.2 - net.now)).with("mode", "switch"));
            }
            // and a frame for the station goes to the remaining peer (unknown destination), not into the void
            for i in 0..3 {
                net.pop_frames(i);
            }
            net.queue.retain(|w| w.data.first() == Some(&0xff)); // keep node 0's re-dial out of the count
            let before = net.queue.len();
            let f = eth_frame(station, [2, 0, 0, 0, 0x10, 1], None, b"frame for the station of the removed peer");
            let r = net.put_frame(0, f.clone());
            let sent: Vec<_> = net.queue.iter().skip(before).map(|w| w.to).collect();
            if r.is_err() || sent != vec![net.addrs[1]] {
                return Err(Fail::new("routes_kept", format!("frame for a station of the removed peer: result {:?}, datagrams to {:?} (expected one, to the remaining peer)", r.map_err(|e| e.to_string()), sent)).with("mode", "switch"));
            }
            break;
        }
    }
    if !removed {
        return Err(Fail::new("silent_peer_kept", "silent peer never removed").with("mode", "switch"));
    }
    Ok(1)
}

#[derive(Serialize, Deserialize, Clone, Debug)]
pub struct SilenceCase {
    pub from_second: i64,
    pub timeout: u32,
    /// the timeout the silent node is configured with (and advertises); None = the same as everybody
    #[serde(default)]
    pub victim_timeout: Option<u32>,
}

pub fn run_silence(c: &SilenceCase) -> CaseResult {
    let cfgs: Vec<_> = (0..3)
        .map(|i| {
            let mut cfg = base_config(Mode::Router, Type::Tun, 0, &[0]);
            cfg.peer_timeout = if i == 2 { c.victim_timeout.unwrap_or(c.timeout) } else { c.timeout };
            cfg.claims = vec![format!("10.{}.0.0/16", i)];
            cfg
        })
        .collect();
    let mut net = Net::<Packet>::mesh(&cfgs, 2);
    if !net.fully_meshed() {
        return Err(Fail::new("no_mesh", "mesh did not form"));
    }
    // last second in which node 0 was handed anything from node 2
    let mut last_heard = net.now;
    for _ in 0..c.from_second {
        net.tick();
        while let Some(w) = net.queue.pop_front() {
            if w.from == net.addrs[2] && w.to == net.addrs[0] {
                last_heard = net.now;
            }
            net.hand_over(w);
        }
    }
    // node 2 falls silent: nothing it sends arrives, nothing reaches it
    net.silenced[2] = true;
    let victim = net.addrs[2];
    // the deadline by the statement: the CONFIGURED peer timeout of the node that waits, counted from the last refresh
    let view = net.nodes[0].verif_peers().into_iter().find(|p| p.addr == victim).ok_or_else(|| Fail::new("no_mesh", "victim is no peer when the silence starts"))?;
    if view.last_seen > last_heard {
        return Err(Fail::new("refreshed_without_datagram", format!("last_seen +{} is later than the last datagram from the peer (+{})", view.last_seen - START_TIME, last_heard - START_TIME)));
    }
    let expiry_0 = view.last_seen + c.timeout as i64;
    if view.timeout != expiry_0 {
        return Err(Fail::new("wrong_deadline", format!("peer refreshed at +{}: deadline +{} instead of refresh + configured timeout {} = +{}", view.last_seen - START_TIME, view.timeout - START_TIME, c.timeout, expiry_0 - START_TIME))
            .with("victim_timeout_differs", c.victim_timeout.map(|v| v != c.timeout).unwrap_or(false)));
    }
    let mut removed_at: Option<i64> = None;
    let mut dialled = false;
    for _ in 0..(c.timeout as i64 + 130) {
        net.tick();
        // dial attempts of node 0 towards the silent node are on the wire now
        let dialling = net.queue.iter().any(|w| w.from == net.addrs[0] && w.to == victim && w.data.first() == Some(&0xff));
        net.deliver_all(512);
        let connected = net.nodes[0].verif_is_connected(&victim);
        if connected && net.now > expiry_0 {
            return Err(Fail::new("silent_peer_kept", format!("silent since +{}: still a peer at +{} although its timeout expired at +{}", c.from_second, net.now - START_TIME, expiry_0 - START_TIME)));
        }
        if !connected && removed_at.is_none() {
            removed_at = Some(net.now);
            if net.now <= expiry_0 {
                return Err(Fail::new("removed_too_early", format!("peer removed at +{} before its timeout +{}", net.now - START_TIME, expiry_0 - START_TIME)));
            }
            if net.nodes[0].verif_table().verif_claims().iter().any(|x| x.0 == victim) {
                return Err(Fail::new("routes_kept", "routes of the timed-out peer remain"));
            }
        }
        if removed_at.is_some() && dialling {
            dialled = true;
        }
        // the two healthy nodes stay connected throughout
        if !net.connected(0, 1) || !net.connected(1, 0) {
            return Err(Fail::new("healthy_peer_dropped", "the healthy pair lost its connection"));
        }
    }
    if removed_at.is_none() {
        return Err(Fail::new("silent_peer_kept", "silent peer never removed"));
    }
    if !dialled {
        return Err(Fail::new("no_redial", "the timed-out peer was never re-dialled"));
    }
    Ok((removed_at.unwrap() - expiry_0) as u64)
}

#[derive(Serialize, Deserialize, Clone, Debug)]
pub struct BackoffCase {
    pub hours: u32,
}

pub fn run_backoff(c: &BackoffCase) -> CaseResult {
    let cfg = base_config(Mode::Router, Type::Tun, 0, &[0]);
    let mut net = Net::<Packet>::new();
    net.add_node(&cfg, false);
    let ghost = addr_of(77);
    net.configure_peer(0, ghost);
    let mut last_dial = net.now;
    let mut last_start = net.now;
    let mut dials = 0u64;
    let mut max_gap = 0i64;
    let new_ping = |net: &mut Net<Packet>| -> bool {
        // a dial attempt = a handshake datagram to the ghost right after a period without pending handshake, i.e. the
        // first ping of a new attempt; retransmissions of the same attempt follow every second for 120 s
        let any = net.queue.iter().any(|w| w.to == ghost);
        net.queue.clear();
        any
    };
    new_ping(&mut net);
    let mut silent_for = 0i64;
    for _ in 0..(c.hours as i64 * 3600) {
        net.tick();
        if new_ping(&mut net) {
            if silent_for > 0 {
                // a new attempt (its first ping follows a silence): start-to-start distance of attempts is the back-off
                dials += 1;
                let gap = net.now - last_start;
                if gap > 3600 {
                    return Err(Fail::new("backoff_exceeds_hour", format!("attempt at t=+{} starts {} s after the previous one", net.now - START_TIME, gap)));
                }
                max_gap = max_gap.max(gap);
                last_start = net.now;
            }
            last_dial = net.now;
            silent_for = 0;
        } else {
            silent_for += 1;
        }
        if net.now - last_dial > 3600 {
            return Err(Fail::new("backoff_exceeds_hour", format!("no dial attempt for {} s at t=+{}", net.now - last_dial, net.now - START_TIME)));
        }
    }
    if dials < c.hours as u64 / 2 {
        return Err(Fail::new("dialling_stopped", format!("only {} dial attempts in {} h", dials, c.hours)));
    }
    Ok(max_gap as u64)
}

pub fn run(ctx: &Ctx) {
    let own_timeouts = [0u32, 1, 59, 60, 119, 120, 121, 300, 65535];
    let keepalives = [None, Some(0u32), Some(1), Some(59), Some(600), Some(65535), Some(100000)];
    let advs: Vec<u16> = if ctx.tier == Tier::Quick {
        (0..=400u32).chain([599, 600, 601, 1000, 32767, 32768, 65534, 65535]).map(|v| v as u16).collect()
    } else {
        (0..=65535u32).map(|v| v as u16).collect()
    };
    let n_adv = advs.len() as u64;
    let per = (own_timeouts.len() * keepalives.len() * 2) as u64;
    sweep_range(
        ctx,
        "announcement_interval",
        n_adv * per,
        SweepOpts { chunk: 64, trivial_classes: vec![0], ..Default::default() },
        |i| {
            let adv = advs[(i / per) as usize];
            let j = (i % per) as usize;
            IntervalCase { own_timeout: own_timeouts[j % 9], keepalive: keepalives[(j / 9) % 7], advertised: adv, second_peer: j / 63 == 1 }
        },
        run_interval,
    );
    let mut churn = vec![];
    let advg: Vec<u16> = vec![0, 1, 60, 119, 120, 121, 200, 300, 600, 1800, 65535];
    for own_timeout in [300u32, 600, 1800] {
        for keepalive in [None, Some(600u32)] {
            for a in &advg {
                for b in &advg {
                    for close_first in [true, false] {
                        churn.push(ChurnCase { own_timeout, keepalive, advertised: vec![*a, *b], close_first, same_address: false });
                        if close_first {
                            churn.push(ChurnCase { own_timeout, keepalive, advertised: vec![*a, *b], close_first: false, same_address: true });
                        }
                        if ctx.tier == Tier::Thorough {
                            for c3 in [60u16, 200, 1800] {
                                churn.push(ChurnCase { own_timeout, keepalive, advertised: vec![*a, *b, c3], close_first, same_address: false });
                            }
                        }
                    }
                }
            }
        }
    }
    sweep_list(ctx, "membership_churn", &churn, SweepOpts { chunk: 4, trivial_classes: vec![0], ..Default::default() }, run_churn);
    let grid: Vec<u32> = if ctx.tier == Tier::Quick { vec![1, 2, 3, 60, 120, 300] } else { vec![1, 2, 3, 60, 119, 120, 121, 240, 300, 1800] };
    let mut meshes = vec![];
    for a in &grid {
        for b in &grid {
            for c in &grid {
                meshes.push(MeshCase { timeouts: vec![*a, *b, *c], plain: false });
                if a <= b && b <= c {
                    meshes.push(MeshCase { timeouts: vec![*a, *b, *c], plain: true });
                }
            }
        }
    }
    sweep_list(ctx, "heterogeneous_meshes", &meshes, SweepOpts { chunk: 1, ..Default::default() }, run_mesh);
    let mut sil = vec![];
    for t in 0..=200 {
        sil.push(SilenceCase { from_second: t, timeout: 300, victim_timeout: None });
        if ctx.tier == Tier::Thorough || t % 10 == 0 {
            sil.push(SilenceCase { from_second: t, timeout: 120, victim_timeout: None });
        }
        if ctx.tier == Tier::Thorough || t % 20 == 3 {
            sil.push(SilenceCase { from_second: t, timeout: 300, victim_timeout: Some(140) });
            sil.push(SilenceCase { from_second: t, timeout: 140, victim_timeout: Some(300) });
        }
    }
    sweep_list(ctx, "silence", &sil, SweepOpts { chunk: 1, ..Default::default() }, run_silence);
    let mut sl = vec![];
    for t in (0..=200).step_by(ctx.tier.pick(10, 1)) {
        for timeout in [120u32, 300] {
            sl.push(SilenceCase { from_second: t, timeout, victim_timeout: None });
        }
    }
    sweep_list(ctx, "silence_learned_routes", &sl, SweepOpts { chunk: 1, ..Default::default() }, run_silence_learned);
    sweep_list(ctx, "backoff_48h", &[BackoffCase { hours: 48 }, BackoffCase { hours: 13 }], SweepOpts { chunk: 1, ..Default::default() }, run_backoff);
    ctx.assume("the harness build has overflow checks on: what wraps silently in the release profile is a caught panic here (a louder signal for the same failing input)");
    ctx.assume("keepalive and close messages are never emitted by a running node; the advertised timeout is delivered by a scripted peer through a real handshake");
}

pub fn replay(family: &str, case: &Value) -> Option<CaseResult> {
    match family {
        "announcement_interval" => replay_with::<IntervalCase>(case, run_interval),
        "heterogeneous_meshes" => replay_with::<MeshCase>(case, run_mesh),
        "membership_churn" => replay_with::<ChurnCase>(case, run_churn),
        "silence" => replay_with::<SilenceCase>(case, run_silence),
        "silence_learned_routes" => replay_with::<SilenceCase>(case, run_silence_learned),
        "backoff_48h" => replay_with::<BackoffCase>(case, run_backoff),
        _ => None,
    }
}
