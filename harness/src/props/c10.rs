//! C10 Forwarding isolation: no relaying, exact once-only delivery.
//! E1 at node level: explicit-state search over REAL meshes per mode (router/tun with nested claims, switch/tap, hub/tap):
//! all sequences of frame injections (destination claimed by each peer / learned / unknown / broadcast / own range) and
//! ticks, with a conservation oracle per step.
use super::{c11::ref_matches, c13, common::*, netsim::*, replay_with, Prop};
use crate::{
    device::Type,
    mc::{
        explore::{self, ExploreOpts, Model},
        sweep::*,
        util, CaseResult, Ctx, Fail, Tier,
    },
    payload::{Frame, Packet},
    types::Mode,
};
use serde_json::Value;
use std::time::Duration;

pub fn prop() -> Prop {
    Prop {
        id: "C10",
        title: "Forwarding isolation: no relaying, exact once-only delivery",
        level: "model_checking",
        rule: "explicit-state BFS by history replay over real meshes: router/tun with nested claims on 3 (thorough 4) nodes - alphabet Inject(node, destination in each \
               peer's claim / own claim / covered by two claims / unclaimed / broadcast, 2 sources), Tick; switch/tap and hub/tap on 3 nodes with the frame universe \
               of C13. Conservation oracle per injection: wire datagrams emitted by the reading node = the peers selected by the reference rule, addressed exactly \
               to them; no node sends anything because it RECEIVED payload; exactly one byte-identical interface write at each selected peer and none elsewhere. \
               Plus a gateway variant (node 0 claims 0.0.0.0/0) and the mode x device matrix (all 8 combinations of normal/router/switch/hub with tun/tap, encrypted and plain). Plus: payload-looking datagrams of every type from a non-peer address never reach an interface. distinct_nontrivial = canonical states",
        run,
        replay,
    }
}

#[derive(Clone, Debug, Serialize, Deserialize, PartialEq)]
pub enum Ev {
    /// node, destination index, source index
    Inject(usize, usize, usize),
    Tick,
}

pub struct Sys {
    net: Net<Packet>,
    seq: u32,
}

pub struct Router {
    pub n: usize,
    /// unencrypted mesh
    pub plain: bool,
    /// Mode::Normal on a tun device (= router) instead of Mode::Router
    pub normal_mode: bool,
    /// node 0 is the gateway: it additionally claims 0.0.0.0/0 (every destination then has a receiver, seen from nodes 1 and 2)
    pub default_route: bool,
}

/// claims of node i (nested across nodes): node 0 /8, node 1 /16 inside it, node 2 /24 inside that, node 3 a disjoint /16
fn claims_of(i: usize, default_route: bool) -> Vec<([u8; 4], u8)> {
    let mut v = claims(i);
    if default_route && i == 0 {
        v.push(([0, 0, 0, 0], 0));
    }
    v
}

fn claims(i: usize) -> Vec<([u8; 4], u8)> {
    match i {
        0 => vec![([10, 0, 0, 0], 8)],
        1 => vec![([10, 1, 0, 0], 16)],
        2 => vec![([10, 1, 1, 0], 24), ([192, 168, 0, 0], 16)],
        _ => vec![([172, 16, 0, 0], 16)],
    }
}

const DESTS: [[u8; 4]; 7] = [[10, 1, 1, 5], [10, 1, 2, 5], [10, 2, 0, 1], [192, 168, 3, 3], [172, 16, 0, 9], [8, 8, 8, 8], [255, 255, 255, 255]];
const SRCS: [[u8; 4]; 2] = [[10, 99, 0, 1], [10, 1, 1, 77]];

impl Router {
    /// Reference forwarding rule of node `from`: the peer announcing the most specific claim containing dst (peers only).
    fn selected(&self, from: usize, dst: [u8; 4]) -> Option<usize> {
        let mut best: Option<(u8, usize)> = None;
        for j in 0..self.n {
            if j == from {
                continue;
            }
            for (base, p) in claims_of(j, self.default_route) {
                if ref_matches(&base, p, &dst) {
                    if best.map(|b| p > b.0).unwrap_or(true) {
                        best = Some((p, j));
                    }
                }
            }
        }
        best.map(|b| b.1)
    }
}

impl Model for Router {
    type Ev = Ev;
    type Sys = Sys;

    fn init(&self) -> Sys {
        let cfgs: Vec<_> = (0..self.n)
            .map(|i| {
                let mut c = base_config(if self.normal_mode { Mode::Normal } else { Mode::Router }, Type::Tun, 0, &[0]);
                if self.plain {
                    c.crypto.algorithms = vec!["plain".to_string()];
                }
                c.claims = claims_of(i, self.default_route).iter().map(|(b, p)| format!("{}.{}.{}.{}/{}", b[0], b[1], b[2], b[3], p)).collect();
                c
            })
            .collect();
        let mut net = Net::<Packet>::mesh(&cfgs, 3);
        assert!(net.fully_meshed(), "mesh set-up failed");
        for i in 0..self.n {
            net.pop_frames(i);
        }
        Sys { net, seq: 0 }
    }

    fn enabled(&self, _s: &Sys, _hist: &[Ev]) -> Vec<Ev> {
        let mut v = vec![];
        for node in 0..self.n {
            for d in 0..DESTS.len() {
                for src in 0..SRCS.len() {
                    v.push(Ev::Inject(node, d, src));
                }
            }
        }
        v.push(Ev::Tick);
        v
    }

    fn apply(&self, s: &mut Sys, ev: &Ev) -> Result<(), Fail> {
        match ev {
            Ev::Tick => {
                s.net.tick();
                s.net.deliver_all(512);
                for i in 0..self.n {
                    if !s.net.pop_frames(i).is_empty() {
                        return Err(Fail::new("spontaneous_write", format!("node {} wrote to its interface during housekeeping", i)));
                    }
                }
            }
            Ev::Inject(node, d, src) => {
                s.seq += 1;
                let mut payload = format!("c10 packet {:06}", s.seq).into_bytes();
                payload.extend_from_slice(&[0xa5; 12]);
                let pkt = ipv4_packet(SRCS[*src], DESTS[*d], &payload);
                let want = self.selected(*node, DESTS[*d]);
                let dropped_before = s.net.nodes[*node].verif_dropped().2;
                s.net.queue.clear();
                s.net.put_frame(*node, pkt.clone()).map_err(|e| Fail::new("send_error", format!("{}", e)))?;
                let wire: Vec<(Option<usize>, usize)> = s.net.queue.iter().map(|w| (s.net.node_index(&w.to), s.net.node_index(&w.from).unwrap_or(99))).collect();
                let expect_wire: Vec<(Option<usize>, usize)> = want.iter().map(|j| (Some(*j), *node)).collect();
                if wire != expect_wire {
                    return Err(Fail::new("wrong_wire", format!("interface read at node {} for {:?}: datagrams {:?}, reference selects {:?}", node, DESTS[*d], wire, want)).with("mode", "router"));
                }
                if want.is_none() && s.net.nodes[*node].verif_dropped().2 != dropped_before + 1 {
                    return Err(Fail::new("drop_not_counted", "unroutable packet not counted as dropped"));
                }
                s.net.deliver_all(64);
                if !s.net.queue.is_empty() {
                    let w = &s.net.queue[0];
                    return Err(Fail::new("relayed", format!("a received packet caused a datagram {} -> {} ({} bytes)", w.from, w.to, w.data.len())).with("mode", "router"));
                }
                for r in 0..self.n {
                    let got = s.net.pop_frames(r);
                    let should = want == Some(r);
                    if should && got != vec![pkt.clone()] {
                        return Err(Fail::new("wrong_delivery", format!("selected node {} received {} packet(s), byte-identical: {}", r, got.len(), got.first() == Some(&pkt))).with("mode", "router"));
                    }
                    if !should && !got.is_empty() {
                        return Err(Fail::new("wrong_delivery", format!("node {} is not selected for {:?} but received {} packet(s)", r, DESTS[*d], got.len())).with("mode", "router"));
                    }
                }
            }
        }
        Ok(())
    }

    fn canon(&self, s: &Sys) -> Vec<u8> {
        let mut out = String::new();
        let now = s.net.now;
        for r in 0..self.n {
            out.push_str(&format!("|n{}:", r));
            for (a, p, t) in s.net.nodes[r].verif_table().verif_cache() {
                out.push_str(&format!("({},{},{})", a, p.port(), (t - now).min(300)));
            }
            out.push_str(&format!(" claims={}", s.net.nodes[r].verif_table().verif_claims().len()));
            out.push_str(&format!(" np={}", s.net.nodes[r].verif_next_peers() - now));
        }
        out.into_bytes()
    }

    fn probe(&self, s: Sys, _hist: &[Ev]) -> Result<u64, Fail> {
        Ok(s.net.nodes.iter().map(|n| n.verif_table().verif_cache().len() as u64).sum())
    }
}

// ---------- outsiders ----------

#[derive(Serialize, Deserialize, Clone, Debug)]
pub struct OutsiderCase {
    pub mode: String,
    pub msg_type: u8,
    pub source: String,
}

pub fn run_outsider(c: &OutsiderCase) -> CaseResult {
    let frame = eth_frame([2, 0, 0, 0, 0, 1], [2, 0, 0, 0, 0, 9], None, b"outsider-payload-0123456789");
    let packet = ipv4_packet([10, 99, 0, 1], [10, 1, 1, 5], b"outsider-payload-0123456789");
    let check = |writes: usize, sent: usize| -> CaseResult {
        if writes > 0 {
            return Err(Fail::new("non_peer_delivered", format!("datagram of type {} from {} reached an interface", c.msg_type, c.source)).with("mode", c.mode.clone()));
        }
        if sent > 0 {
            return Err(Fail::new("non_peer_answered", format!("datagram of type {} from {} was answered", c.msg_type, c.source)).with("mode", c.mode.clone()));
        }
        Ok(1)
    };
    if c.mode == "router" {
        let m = Router { n: 3, plain: false, normal_mode: false, default_route: false };
        let mut s = m.init();
        s.net.queue.clear();
        let mut d = vec![c.msg_type];
        d.extend_from_slice(&packet);
        let from = if c.source == "unknown" { addr_of(999) } else { addr_of(4) };
        if c.source == "pending_dial" {
            // node 1 is in the middle of dialling that address (which never answers)
            s.net.connect(1, from);
            s.net.queue.clear();
        }
        util::catch(|| s.net.inject(1, from, d)).map_err(|p| Fail::from_panic(&p))?;
        let writes: usize = (0..3).map(|i| s.net.pop_frames(i).len()).sum();
        check(writes, s.net.queue.len())
    } else {
        let mode = if c.mode == "switch" { Mode::Switch } else { Mode::Hub };
        let cfgs: Vec<_> = (0..3).map(|_| base_config(mode, Type::Tap, 0, &[0])).collect();
        let mut net = Net::<Frame>::mesh(&cfgs, 3);
        net.queue.clear();
        for i in 0..3 {
            net.pop_frames(i);
        }
        let mut d = vec![c.msg_type];
        d.extend_from_slice(&frame);
        let from = if c.source == "unknown" { addr_of(999) } else { addr_of(4) };
        if c.source == "pending_dial" {
            net.connect(1, from);
            net.queue.clear();
        }
        util::catch(|| net.inject(1, from, d)).map_err(|p| Fail::from_panic(&p))?;
        let writes: usize = (0..3).map(|i| net.pop_frames(i).len()).sum();
        check(writes, net.queue.len())
    }
}

// ---------- meshes in which a node is reachable under several addresses ----------

#[derive(Serialize, Deserialize, Clone, Debug)]
pub struct MultiAddrCase {
    /// which nodes reach node 0 through its alias (bit i = node i+1); the others use its real address
    pub via_alias: u8,
    pub mode: String,
    pub settle: usize,
    /// true: the nodes' advertised addresses are unroutable (default wildcard listen address), they are reachable only at one
    /// address per plane and every connection is dialled explicitly on one plane; false: the advertised address is plane 0
    #[serde(default)]
    pub unroutable_advertised: bool,
    /// true: the nodes join one after the other (each join settles before the next), so that nobody ever dials a node it is
    /// about to be dialled by; false: both dial node 0 in the same instant (cross-dial race, see finding F15)
    #[serde(default)]
    pub sequential: bool,
}

pub fn run_multi_addr(c: &MultiAddrCase) -> CaseResult {
    let mode = if c.mode == "switch" { Mode::Switch } else { Mode::Hub };
    let mut net = Net::<Frame>::new();
    for _ in 0..3 {
        net.add_node(&base_config(mode, Type::Tap, 0, &[0]), false);
    }
    // two-plane underlay: node 0 is reachable at its advertised address (plane 0) and at a plane-1 address it does not know
    net.two_planes = true;
    net.real_unroutable = c.unroutable_advertised;
    let alias = plane1_addr(0);
    let real = if c.unroutable_advertised { plane0_addr(0) } else { net.addrs[0] };
    for i in (1..3usize).rev() {
        let target = if c.via_alias & (1 << (i - 1)) != 0 { alias } else { real };
        net.configure_peer(i, target);
        if c.sequential {
            net.deliver_all(512);
            for _ in 0..3 {
                net.tick();
                net.deliver_all(512);
            }
        }
    }
    net.deliver_all(512);
    for _ in 0..c.settle {
        net.tick();
        net.deliver_all(512);
    }
    for i in 0..3 {
        net.pop_frames(i);
    }
    if std::env::var("VERIF_TRACE").is_ok() {
        for i in 0..3 {
            eprintln!("node {} peers {:?} own {:?}", i, net.nodes[i].verif_peers().iter().map(|p| (p.addr, p.addrs.clone())).collect::<Vec<_>>(), net.nodes[i].verif_own_addresses());
        }
    }
    // one session per node: nobody holds two peer entries with the same node id
    for i in 0..3 {
        let ids: Vec<_> = net.nodes[i].verif_peers().iter().map(|p| p.node_id).collect();
        let mut uniq = ids.clone();
        uniq.sort();
        uniq.dedup();
        if uniq.len() != ids.len() {
            return Err(Fail::new("duplicate_session", format!("node {} holds {} peer entries for {} distinct nodes: {:?}", i, ids.len(), uniq.len(), net.nodes[i].verif_peers().iter().map(|p| p.addr).collect::<Vec<_>>()))
                .with("advertised_address_routable", !c.unroutable_advertised)
                .with("some_node_uses_plane1", c.via_alias != 0)
                .with("sequential_join", c.sequential));
        }
        if uniq.len() != 2 {
            return Err(Fail::new("no_full_mesh", format!("node {} has {} peers after {} s", i, uniq.len(), c.settle)));
        }
    }
    // conservation for a flooded frame from every node
    for from in 0..3usize {
        net.queue.clear();
        let f = eth_frame([0xff; 6], [2, 0, 0, 0, 0, from as u8 + 1], None, format!("flood from {}", from).as_bytes());
        net.put_frame(from, f.clone()).map_err(|e| Fail::new("send_error", format!("{}", e)))?;
        let sent = net.queue.len();
        net.deliver_all(64);
        for r in 0..3 {
            let got = net.pop_frames(r);
            let want = if r == from { 0 } else { 1 };
            if got.len() != want || got.iter().any(|g| g != &f) {
                return Err(Fail::new("wrong_delivery", format!("flooded frame from node {}: node {} wrote {} frame(s) (expected {}), {} datagrams on the wire", from, r, got.len(), want, sent)).with("mode", c.mode.clone()));
            }
        }
        if sent != 2 {
            return Err(Fail::new("wrong_wire", format!("flooded frame from node {} caused {} datagrams, expected 2", from, sent)).with("mode", c.mode.clone()));
        }
    }
    Ok(1 + c.via_alias as u64)
}

// ---------- large meshes ----------

#[derive(Serialize, Deserialize, Clone, Debug)]
pub struct LargeCase {
    pub n: usize,
    pub mode: String,
    pub plain: bool,
}

/// A mesh of `n` nodes (one broadcast then serves n-1 peers from one buffer): every node floods one frame and sends one frame
/// to a learned station; conservation as everywhere; the announcement broadcasts of two intervals go through.
pub fn run_large(c: &LargeCase) -> CaseResult {
    let mode = if c.mode == "switch" { Mode::Switch } else { Mode::Hub };
    let cfgs: Vec<_> = (0..c.n)
        .map(|_| {
            let mut cfg = base_config(mode, Type::Tap, 0, &[0]);
            if c.plain {
                cfg.crypto.algorithms = vec!["plain".to_string()];
            }
            cfg
        })
        .collect();
    let sig = |f: Fail| f.with("n", c.n as u64).with("mode", c.mode.clone());
    let mut net = Net::<Frame>::mesh(&cfgs, 5);
    for _ in 0..100 {
        if net.fully_meshed() {
            break;
        }
        net.tick();
        net.deliver_all(4096);
    }
    if !net.fully_meshed() {
        return Err(sig(Fail::new("no_full_mesh", format!("{} nodes did not mesh within 105 s", c.n))));
    }
    if let Some((i, e)) = net.housekeep_errors.first() {
        return Err(sig(Fail::new("housekeep_error", format!("node {}: {}", i, e))));
    }
    for i in 0..c.n {
        net.pop_frames(i);
    }
    for from in 0..c.n {
        net.queue.clear();
        let src = [2, 0, 0, 0, 1, from as u8];
        let f = eth_frame([0xff; 6], src, None, format!("large mesh flood from {:02}", from).as_bytes());
        util::catch(|| net.put_frame(from, f.clone())).map_err(|p| sig(Fail::from_panic(&p)))?.map_err(|e| sig(Fail::new("send_error", format!("flood from node {}: {}", from, e))))?;
        let sent = net.queue.len();
        net.deliver_all(256);
        if sent != c.n - 1 {
            return Err(sig(Fail::new("wrong_wire", format!("flooded frame from node {} caused {} datagrams, expected {}", from, sent, c.n - 1))));
        }
        for r in 0..c.n {
            let got = net.pop_frames(r);
            let want = if r == from { 0 } else { 1 };
            if got.len() != want || got.iter().any(|g| g != &f) {
                return Err(sig(Fail::new("wrong_delivery", format!("flooded frame from node {}: node {} wrote {} frame(s), byte-identical: {}", from, r, got.len(), got.iter().all(|g| g == &f)))));
            }
        }
        // the answer to that station: unicast in switch mode, flooded in hub mode
        let to = (from + 1) % c.n;
        net.queue.clear();
        let g = eth_frame(src, [2, 0, 0, 0, 2, to as u8], None, b"large mesh answer");
        net.put_frame(to, g.clone()).map_err(|e| sig(Fail::new("send_error", format!("{}", e))))?;
        let sent = net.queue.len();
        let want_sent = if c.mode == "switch" { 1 } else { c.n - 1 };
        net.deliver_all(256);
        if sent != want_sent {
            return Err(sig(Fail::new("wrong_wire", format!("answer from node {} caused {} datagrams, expected {}", to, sent, want_sent))));
        }
        for r in 0..c.n {
            let got = net.pop_frames(r);
            let want = if r == to { 0 } else if c.mode == "switch" { (r == from) as usize } else { 1 };
            if got.len() != want {
                return Err(sig(Fail::new("wrong_delivery", format!("answer from node {} to the station behind node {}: node {} wrote {} frame(s), expected {}", to, from, r, got.len(), want))));
            }
        }
    }
    // two announcement intervals: every node broadcasts its node information to n-1 peers
    for _ in 0..185 {
        util::catch(|| net.tick()).map_err(|p| sig(Fail::from_panic(&p)))?;
        net.deliver_all(8192);
    }
    if let Some((i, e)) = net.housekeep_errors.first() {
        return Err(sig(Fail::new("housekeep_error", format!("node {}: {}", i, e))));
    }
    if !net.fully_meshed() {
        return Err(sig(Fail::new("mesh_lost", "the mesh fell apart during two announcement intervals")));
    }
    Ok(c.n as u64)
}

pub fn run(ctx: &Ctx) {
    let mut large = vec![];
    for n in ctx.tier.pick(vec![13usize], vec![12, 13, 14, 22]) {
        for mode in ["switch", "hub"] {
            large.push(LargeCase { n, mode: mode.to_string(), plain: false });
        }
    }
    large.push(LargeCase { n: 13, mode: "switch".into(), plain: true });
    sweep_list(ctx, "large_mesh", &large, SweepOpts { chunk: 1, ..Default::default() }, run_large);
    let mut multi = vec![];
    for via_alias in 0..4u8 {
        for mode in ["switch", "hub"] {
            for settle in [5usize, 100, 200] {
                for sequential in [false, true] {
                    multi.push(MultiAddrCase { via_alias, mode: mode.to_string(), settle, unroutable_advertised: false, sequential });
                    multi.push(MultiAddrCase { via_alias, mode: mode.to_string(), settle, unroutable_advertised: true, sequential });
                }
            }
        }
    }
    super::modes::run(ctx);
    sweep_list(ctx, "multi_address_mesh", &multi, SweepOpts { chunk: 1, ..Default::default() }, run_multi_addr);
    let m = Router { n: 3, plain: false, normal_mode: false, default_route: false };
    let res = explore::explore(
        ctx,
        "isolation_router",
        &m,
        ExploreOpts { max_depth: ctx.tier.pick(3, 4), wall_cap: Duration::from_secs(ctx.tier.pick(400, 1200)), state_cap: 2_000_000, dedup: true },
    );
    explore::audit_dedup(ctx, "isolation_router", &m, &res, 2, Duration::from_secs(ctx.tier.pick(300, 300)));
    for (name, plain, normal_mode) in [("isolation_router_plain", true, false), ("isolation_router_normal", false, true)] {
        explore::explore(
            ctx,
            name,
            &Router { n: 3, plain, normal_mode, default_route: false },
            ExploreOpts { max_depth: ctx.tier.pick(2, 3), wall_cap: Duration::from_secs(ctx.tier.pick(400, 600)), state_cap: 2_000_000, dedup: true },
        );
    }
    explore::explore(
        ctx,
        "isolation_router_default_route",
        &Router { n: 3, plain: false, normal_mode: false, default_route: true },
        ExploreOpts { max_depth: ctx.tier.pick(2, 3), wall_cap: Duration::from_secs(ctx.tier.pick(400, 600)), state_cap: 2_000_000, dedup: true },
    );
    if ctx.tier == Tier::Thorough {
        explore::explore(ctx, "isolation_router4", &Router { n: 4, plain: false, normal_mode: false, default_route: false }, ExploreOpts { max_depth: 3, wall_cap: Duration::from_secs(1200), state_cap: 2_000_000, dedup: true });
    }
    // switch and hub: the learning model of C13 carries the same conservation oracle (receivers, wire, byte identity, once,
    // no relaying); it is explored here under C10's name
    for (fam, model, depth) in c13::variants(Tier::Quick) {
        let name = fam.replace("learning_", "isolation_");
        explore::explore(
            ctx,
            &name,
            &model,
            ExploreOpts { max_depth: if name.ends_with("switch") { ctx.tier.pick(3, 4) } else { depth }, wall_cap: Duration::from_secs(ctx.tier.pick(400, 1200)), state_cap: 2_000_000, dedup: true },
        );
    }
    let mut outs = vec![];
    for mode in ["router", "switch", "hub"] {
        for msg_type in [0u8, 1, 2, 3, 0xfe] {
            for source in ["unknown", "absent_node", "pending_dial"] {
                outs.push(OutsiderCase { mode: mode.into(), msg_type, source: source.into() });
            }
        }
    }
    sweep_list(ctx, "outsiders", &outs, SweepOpts { chunk: 1, ..Default::default() }, run_outsider);
    ctx.assume("non-duplicating FIFO network; 3 nodes (4 in the thorough router run)");
}

pub fn replay(family: &str, case: &Value) -> Option<CaseResult> {
    match family {
        "outsiders" => replay_with::<OutsiderCase>(case, run_outsider),
        "mode_matrix" => replay_with::<super::modes::ModeCase>(case, super::modes::run_case),
        "multi_address_mesh" => replay_with::<MultiAddrCase>(case, run_multi_addr),
        "large_mesh" => replay_with::<LargeCase>(case, run_large),
        f if f.starts_with("isolation_router") => {
            let hist: Vec<Ev> = serde_json::from_value(case["history"].clone()).ok()?;
            let n = if f.contains('4') { 4 } else { 3 };
            Some(explore::replay_history(&Router { n, plain: f.contains("plain"), normal_mode: f.contains("normal"), default_route: f.contains("default_route") }, &hist))
        }
        f => {
            let want = f.trim_end_matches("-audit").replace("isolation_", "learning_");
            let (_, m, _) = c13::variants(Tier::Quick).into_iter().find(|(n, _, _)| *n == want)?;
            let hist: Vec<c13::Ev> = serde_json::from_value(case["history"].clone()).ok()?;
            Some(explore::replay_history(&m, &hist))
        }
    }
}
