//! Family `mode_matrix` (shared by C10, C11 and C13): every combination of the four modes with the two device types.
//! The statements speak about "router", "switch" and "hub" mode; the code derives two flags (learning, broadcast) from
//! the configured mode AND the device type, so all 8 combinations (x encrypted / plain) are real configurations:
//!   learning  = switch, or normal on a tap device
//!   broadcast = switch, hub, or normal on a tap device
//! Each combination is a real 3-node mesh (claims as configuration STRINGS: IPv4 ranges on tun, MAC ranges on tap) driven
//! through one fixed script of interface reads whose receivers are given by the reference above.
use super::{common::*, netsim::*};
use crate::{
    device::Type,
    mc::{sweep::*, CaseResult, Ctx, Fail},
    payload::{Frame, Packet, Protocol},
    types::Mode,
};

#[derive(Serialize, Deserialize, Clone, Debug)]
pub struct ModeCase {
    pub mode: String,
    pub tap: bool,
    pub plain: bool,
    /// which node reads the frames with unknown destination (the script is symmetric otherwise)
    pub reader: usize,
}

fn mode_of(s: &str) -> Mode {
    match s {
        "normal" => Mode::Normal,
        "router" => Mode::Router,
        "switch" => Mode::Switch,
        _ => Mode::Hub,
    }
}

/// host inside node i's claim / an address nobody claims / a station address nobody claims
fn tun_host(i: usize) -> [u8; 4] {
    [10, i as u8 + 1, 0, 7]
}
fn tap_host(i: usize) -> [u8; 6] {
    [2, 0, 0, 0, i as u8 + 1, 7]
}

struct Script<'a, P: Protocol> {
    net: &'a mut Net<P>,
    c: &'a ModeCase,
    seq: u32,
}

impl<'a, P: Protocol> Script<'a, P> {
    /// Injects `frame` at `node`; checks wire datagrams, interface writes (byte-identical, once), relaying, the drop counter.
    fn step(&mut self, what: &str, node: usize, frame: Vec<u8>, expected: &[usize]) -> Result<(), Fail> {
        self.seq += 1;
        let sig = |f: Fail, c: &ModeCase| f.with("mode", c.mode.clone()).with("tap", c.tap).with("step", what.to_string());
        let dropped_before = self.net.nodes[node].verif_dropped().2;
        self.net.queue.clear();
        let res = self.net.put_frame(node, frame.clone());
        if let Err(e) = &res {
            return Err(sig(Fail::new("send_error", format!("{}: interface read at node {} failed: {}", what, node, e)), self.c));
        }
        let mut wire: Vec<usize> = self.net.queue.iter().filter_map(|w| self.net.node_index(&w.to)).collect();
        wire.sort();
        if wire != expected {
            return Err(sig(Fail::new("wrong_wire", format!("{}: interface read at node {} caused datagrams to {:?}, reference {:?} (result {:?})", what, node, wire, expected, res.map_err(|e| e.to_string()))), self.c));
        }
        let dropped_after = self.net.nodes[node].verif_dropped().2;
        if expected.is_empty() && dropped_after != dropped_before + 1 {
            return Err(sig(Fail::new("drop_not_counted", format!("{}: frame without receiver was not counted as dropped payload ({} -> {})", what, dropped_before, dropped_after)), self.c));
        }
        if !expected.is_empty() && dropped_after != dropped_before {
            return Err(sig(Fail::new("drop_counted", format!("{}: delivered frame counted as dropped", what)), self.c));
        }
        self.net.deliver_all(64);
        if !self.net.queue.is_empty() {
            return Err(sig(Fail::new("relayed", format!("{}: a received payload caused {} datagram(s)", what, self.net.queue.len())), self.c));
        }
        for r in 0..3 {
            let got = self.net.pop_frames(r);
            let want = expected.contains(&r);
            if want && got != vec![frame.clone()] {
                return Err(sig(Fail::new("wrong_delivery", format!("{}: selected node {} wrote {} frame(s) (byte-identical: {})", what, r, got.len(), got.first() == Some(&frame))), self.c));
            }
            if !want && !got.is_empty() {
                return Err(sig(Fail::new("wrong_delivery", format!("{}: node {} is not selected but wrote {} frame(s)", what, r, got.len())), self.c));
            }
        }
        Ok(())
    }
}

fn run_generic<P: Protocol>(c: &ModeCase, mk: &dyn Fn(u32, Addr, Addr) -> Vec<u8>) -> CaseResult {
    let mode = mode_of(&c.mode);
    let dt = if c.tap { Type::Tap } else { Type::Tun };
    let learning = mode == Mode::Switch || (mode == Mode::Normal && c.tap);
    let broadcast = learning || mode == Mode::Hub;
    let cfgs: Vec<_> = (0..3)
        .map(|i| {
            let mut cfg = base_config(mode, dt, 0, &[0]);
            if c.plain {
                cfg.crypto.algorithms = vec!["plain".to_string()];
            }
            cfg.claims = vec![if c.tap { format!("02:00:00:00:{:02x}:00/40", i + 1) } else { format!("10.{}.0.0/16", i + 1) }];
            cfg
        })
        .collect();
    let mut net = Net::<P>::mesh(&cfgs, 3);
    if !net.fully_meshed() {
        return Err(Fail::new("no_full_mesh", "mesh set-up failed").with("mode", c.mode.clone()).with("tap", c.tap));
    }
    for i in 0..3 {
        net.pop_frames(i);
    }
    let r = c.reader;
    let (p, q) = ((r + 1) % 3, (r + 2) % 3);
    let mut both = vec![p, q];
    both.sort();
    let all_or_none: Vec<usize> = if broadcast { both.clone() } else { vec![] };
    let mut s = Script { net: &mut net, c, seq: 0 };
    // 1. destination inside a peer's claim: exactly that peer, in every mode
    s.step("claimed destination", r, mk(1, Addr::Host(r), Addr::Host(p)), &[p])?;
    s.step("claimed destination (other peer)", r, mk(2, Addr::Host(r), Addr::Host(q)), &[q])?;
    // 2. destination nobody claims, source a station nobody claims: all peers (switch, hub) or dropped and counted (router)
    s.step("unknown destination", r, mk(3, Addr::Station, Addr::Unknown), &all_or_none)?;
    // 3. a peer answers to the station: learned (only the reader) / flooded / dropped
    let mut back = vec![r, q];
    back.sort();
    let exp3: Vec<usize> = if learning { vec![r] } else if broadcast { back } else { vec![] };
    s.step("destination seen as a source before", p, mk(4, Addr::Host(p), Addr::Station), &exp3)?;
    // 4. broadcast address
    s.step("broadcast destination", r, mk(5, Addr::Host(r), Addr::Broadcast), &all_or_none)?;
    // 5. destination inside the reader's OWN claim (the table holds the peers' claims only)
    s.step("own claim as destination", r, mk(6, Addr::Station, Addr::Host(r)), &all_or_none)?;
    // 6. non-learning modes hold no decision for the station address
    let station = if c.tap { tap_host(8)[..].to_vec() } else { vec![192, 168, 77, 1] };
    for i in 0..3 {
        let knows = s.net.nodes[i].verif_table().verif_cache().iter().any(|e| e.0.data[..e.0.len as usize] == station[..]);
        if knows && !learning {
            return Err(Fail::new("learned_in_non_learning_mode", format!("node {} holds a decision for an address it only saw as a source", i)).with("mode", c.mode.clone()).with("tap", c.tap));
        }
    }
    Ok(1 + learning as u64 * 2 + broadcast as u64 * 4)
}

#[derive(Clone, Copy)]
enum Addr {
    Host(usize),
    Station,
    Unknown,
    Broadcast,
}

pub fn run_case(c: &ModeCase) -> CaseResult {
    if c.tap {
        let a = |x: Addr| -> [u8; 6] {
            match x {
                Addr::Host(i) => tap_host(i),
                Addr::Station => tap_host(8),
                Addr::Unknown => [2, 0, 0, 0, 0x55, 1],
                Addr::Broadcast => [0xff; 6],
            }
        };
        run_generic::<Frame>(c, &|seq, src, dst| eth_frame(a(dst), a(src), None, format!("mode matrix frame {:04} 0123456789", seq).as_bytes()))
    } else {
        let a = |x: Addr| -> [u8; 4] {
            match x {
                Addr::Host(i) => tun_host(i),
                Addr::Station => [192, 168, 77, 1],
                Addr::Unknown => [172, 31, 0, 1],
                Addr::Broadcast => [255, 255, 255, 255],
            }
        };
        run_generic::<Packet>(c, &|seq, src, dst| ipv4_packet(a(src), a(dst), format!("mode matrix packet {:04} 0123456789", seq).as_bytes()))
    }
}

pub fn cases() -> Vec<ModeCase> {
    let mut v = vec![];
    for mode in ["normal", "router", "switch", "hub"] {
        for tap in [false, true] {
            for plain in [false, true] {
                for reader in 0..3 {
                    v.push(ModeCase { mode: mode.to_string(), tap, plain, reader });
                }
            }
        }
    }
    v
}

pub fn run(ctx: &Ctx) {
    sweep_list(ctx, "mode_matrix", &cases(), SweepOpts { chunk: 1, ..Default::default() }, run_case);
}
