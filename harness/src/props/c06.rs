//! C06 Cipher negotiation is symmetric and cannot be downgraded.
//! E3: every pair of side descriptions (cipher subset, speeds from a grid, plain flag) x every ordering of both
//! lists x both initiator assignments, each a REAL two-party handshake; plus single-field edits of the cipher
//! list inside a genuine ping.
use super::{common::*, replay_with, Prop};
use crate::{
    crypto::{verif as cv, Algorithms, MessageResult, PeerCrypto},
    mc::{sweep::*, CaseResult, Ctx, Fail, Tier},
    util::MsgBuffer,
};
use serde_json::Value;
use smallvec::SmallVec;
use std::sync::Arc;

pub fn prop() -> Prop {
    Prop {
        id: "C06",
        title: "Cipher negotiation is symmetric and cannot be downgraded",
        level: "exploration",
        rule: "complete enumeration of unordered side descriptions (each of aes128/aes256/chacha20 absent or present with a speed from the grid, plain flag) \
               squared; inside each case ALL orderings of both lists x both initiators are run as real handshakes and must agree with each other and with the \
               reference (plain iff both flags; else some cipher maximising the slower side's speed over the common set; clean failure iff no common cipher); \
               the same order structures at five other magnitudes (speed_magnitudes); plus every single-field edit of the cipher list inside a genuine ping. non-trivial = at least one common cipher or both plain",
        run,
        replay,
    }
}

/// speeds[i] for cipher id i+1; None = cipher not offered
#[derive(Serialize, Deserialize, Clone, Debug)]
pub struct Side {
    pub speeds: [Option<f32>; 3],
    pub plain: bool,
}

#[derive(Serialize, Deserialize, Clone, Debug)]
pub struct Case {
    pub a: Side,
    pub b: Side,
}

fn orderings(s: &Side) -> Vec<Vec<(u8, f32)>> {
    let items: Vec<(u8, f32)> = (0..3).filter_map(|i| s.speeds[i].map(|sp| (i as u8 + 1, sp))).collect();
    let mut out = vec![];
    permute(&items, &mut vec![], &mut vec![false; items.len()], &mut out);
    out
}

fn permute(items: &[(u8, f32)], cur: &mut Vec<(u8, f32)>, used: &mut Vec<bool>, out: &mut Vec<Vec<(u8, f32)>>) {
    if cur.len() == items.len() {
        out.push(cur.clone());
        return;
    }
    for i in 0..items.len() {
        if !used[i] {
            used[i] = true;
            cur.push(items[i]);
            permute(items, cur, used, out);
            cur.pop();
            used[i] = false;
        }
    }
}

struct Keys {
    kp: Arc<ring::signature::Ed25519KeyPair>,
    trusted: Arc<[[u8; 32]]>,
}

fn keys() -> Keys {
    let c = mk_crypto(node_id(1), &cfg_with_key(0, &[0], &[]), [1.0, 1.0, 1.0]).expect("crypto");
    Keys { kp: c.verif_key_pair(), trusted: c.verif_trusted_keys().to_vec().into() }
}

fn mk_peer(k: &Keys, nid: u8, list: &[(u8, f32)], plain: bool, payload: u8) -> PeerCrypto<Blob> {
    let algorithm_speeds: SmallVec<[(&'static ring::aead::Algorithm, f32); 3]> = list.iter().map(|(id, s)| (algo_by_id(*id), *s)).collect();
    PeerCrypto::new(node_id(nid), Blob(vec![payload]), k.kp.clone(), k.trusted.clone(), Algorithms { algorithm_speeds, allow_unencrypted: plain })
}

/// Reference: Some(set of acceptable outcomes) ("PLAIN" or cipher names), None = must fail.
fn reference(c: &Case) -> Option<Vec<&'static str>> {
    if c.a.plain && c.b.plain {
        return Some(vec!["PLAIN"]);
    }
    let mut best: Option<f32> = None;
    let mut mins = vec![];
    for i in 0..3 {
        if let (Some(x), Some(y)) = (c.a.speeds[i], c.b.speeds[i]) {
            let m = if x < y { x } else { y };
            mins.push((i, m));
            best = Some(match best {
                Some(b) if b >= m => b,
                _ => m,
            });
        }
    }
    let best = best?;
    Some(mins.iter().filter(|(_, m)| *m == best).map(|(i, _)| algo_name(*i as u8 + 1)).collect())
}

pub fn run_case(c: &Case) -> CaseResult {
    let k = keys();
    let want = reference(c);
    let mut outcomes: Vec<(String, String)> = vec![]; // (description, outcome)
    for la in orderings(&c.a) {
        for lb in orderings(&c.b) {
            for a_initiates in [true, false] {
                let mut a = mk_peer(&k, 1, &la, c.a.plain, 1);
                let mut b = mk_peer(&k, 2, &lb, c.b.plain, 2);
                let out = if a_initiates { handshake(&mut a, &mut b) } else { handshake(&mut b, &mut a) };
                // `handshake(x, y)`: x is "a" of the helper
                let (init_done, resp_done, init_err, resp_err) = (out.a_done, out.b_done, out.a_err, out.b_err);
                let (a_done, b_done) = if a_initiates { (init_done.clone(), resp_done.clone()) } else { (resp_done.clone(), init_done.clone()) };
                let desc = format!("a={:?} b={:?} initiator={}", la, lb, if a_initiates { "a" } else { "b" });
                let outcome = if a_done.is_some() && b_done.is_some() {
                    let (na, nb) = (a.algorithm_name(), b.algorithm_name());
                    if na != nb {
                        return Err(Fail::new("ends_disagree", format!("{}: a selected {}, b selected {}", desc, na, nb)));
                    }
                    if a_done != Some(Blob(vec![2])) || b_done != Some(Blob(vec![1])) {
                        return Err(Fail::new("payload_mismatch", format!("{}: payloads {:?} {:?}", desc, a_done, b_done)));
                    }
                    // both ends must really be able to talk
                    probe(&mut a, &mut b, 0, b"ping").map_err(|e| Fail::new("probe_failed", format!("{}: {}", desc, e)))?;
                    probe(&mut b, &mut a, 0, b"pong").map_err(|e| Fail::new("probe_failed", format!("{}: {}", desc, e)))?;
                    na.to_string()
                } else if a_done.is_none() && b_done.is_none() {
                    format!("FAIL({})", resp_err.clone().or(init_err.clone()).unwrap_or_default())
                } else {
                    return Err(Fail::new("half_open", format!("{}: only one end completed (errors {:?} {:?})", desc, init_err, resp_err))
                        .with("tie", want.as_ref().map(|w| w.len() > 1).unwrap_or(false)));
                };
                match &want {
                    Some(allowed) => {
                        if !allowed.iter().any(|x| *x == outcome) {
                            let tie = allowed.len() > 1;
                            return Err(Fail::new(
                                if outcome.starts_with("FAIL") { "shared_cipher_but_failed" } else { "wrong_cipher" },
                                format!("{}: outcome {}, reference allows {:?}", desc, outcome, allowed),
                            )
                            .with("tie", tie)
                            .with("zero_speed", c.a.speeds.iter().chain(c.b.speeds.iter()).any(|s| *s == Some(0.0))));
                        }
                    }
                    None => {
                        if !outcome.starts_with("FAIL") {
                            return Err(Fail::new("no_common_but_connected", format!("{}: outcome {}", desc, outcome)));
                        }
                        if !outcome.contains("No common algorithms") {
                            return Err(Fail::new("unclean_failure", format!("{}: expected the 'No common algorithms' failure, got {}", desc, outcome)));
                        }
                    }
                }
                outcomes.push((desc, outcome));
            }
        }
    }
    // outcome depends only on sets and speeds: identical for every ordering and either initiator
    if let Some((d0, o0)) = outcomes.first() {
        for (d, o) in &outcomes {
            if o != o0 {
                return Err(Fail::new("order_dependent", format!("outcome {} for [{}] but {} for [{}]", o0, d0, o, d))
                    .with("tie", want.as_ref().map(|w| w.len() > 1).unwrap_or(false)));
            }
        }
    }
    Ok(match &want {
        None => 0,
        Some(w) => 1 + w.len() as u64 + if w[0] == "PLAIN" { 10 } else { 0 },
    })
}

// ----- edits of the cipher list inside a genuine ping -----

#[derive(Serialize, Deserialize, Clone, Debug)]
pub struct EditCase {
    /// byte offset inside the algorithms part body (or -1: length field low byte)
    pub offset: i32,
    pub value: u8,
}

/// (offset of the algorithms part body, its length) inside a ping datagram (with the 0xff marker).
fn algo_part(ping: &[u8]) -> (usize, usize) {
    let mut pos = 1 + 8;
    loop {
        let tag = ping[pos];
        assert!(tag != 0, "algorithms part not found");
        let len = ((ping[pos + 1] as usize) << 8) | ping[pos + 2] as usize;
        if tag == 4 {
            return (pos + 3, len);
        }
        pos += 3 + len;
    }
}

pub fn run_edit(c: &EditCase) -> CaseResult {
    let k = keys();
    let la = vec![(1u8, 2.0f32), (2, 1.0), (3, 1.5)];
    let lb = vec![(3u8, 2.0f32), (2, 3.0), (1, 1.0)];
    let mut a = mk_peer(&k, 1, &la, false, 1);
    let mut b = mk_peer(&k, 2, &lb, false, 2);
    let mut buf = MsgBuffer::new(SPACE);
    a.initialize(&mut buf).map_err(|e| Fail::new("setup", format!("{}", e)))?;
    let mut ping = buf.message().to_vec();
    let (off, len) = algo_part(&ping);
    if c.offset >= len as i32 {
        return Ok(0);
    }
    let idx = if c.offset < 0 { off - 1 } else { off + c.offset as usize };
    if ping[idx] == c.value {
        return Ok(0);
    }
    ping[idx] = c.value;
    let before = b.verif_state();
    load(&mut buf, &ping);
    match b.handle_message(&mut buf) {
        Err(_) => {}
        Ok(r) => return Err(Fail::new("edited_list_accepted", format!("ping with cipher-list byte {} := {} accepted: {:?}", c.offset, c.value, r))),
    }
    if b.verif_state() != before {
        return Err(Fail::new("state_changed", "rejected ping changed the receiver's state"));
    }
    Ok(1)
}

// ----- configuration path: names -> advertised list -----

#[derive(Serialize, Deserialize, Clone, Debug)]
pub struct NameCase {
    pub names: Vec<String>,
}

pub fn run_names(c: &NameCase) -> CaseResult {
    let refs: Vec<&str> = c.names.iter().map(|s| s.as_str()).collect();
    let res = mk_crypto(node_id(1), &cfg_with_key(0, &[0], &refs), [3.0, 2.0, 1.0]);
    // reference: case-insensitive names; empty list = all three ciphers without plain; unknown name = configuration error
    let mut want_plain = false;
    let mut want: Vec<u8> = vec![];
    let mut unknown = false;
    for n in &c.names {
        match n.to_uppercase().as_str() {
            "UNENCRYPTED" | "NONE" | "PLAIN" => want_plain = true,
            "AES128" | "AES128_GCM" | "AES_128" | "AES_128_GCM" => want.push(1),
            "AES256" | "AES256_GCM" | "AES_256" | "AES_256_GCM" => want.push(2),
            "CHACHA" | "CHACHA20" | "CHACHA20_POLY1305" => want.push(3),
            _ => unknown = true,
        }
    }
    if c.names.is_empty() {
        want = vec![1, 2, 3];
    }
    match res {
        Err(e) => {
            if unknown {
                Ok(0)
            } else {
                Err(Fail::new("names_rejected", format!("{:?} rejected: {}", c.names, e)))
            }
        }
        Ok(cr) => {
            if unknown {
                return Err(Fail::new("unknown_name_accepted", format!("{:?} accepted", c.names)));
            }
            let a = cr.verif_algorithms();
            let got: Vec<u8> = a.algorithm_speeds.iter().map(|(al, _)| cv::init_verif::algorithm_id(al)).collect();
            if got != want || a.allow_unencrypted != want_plain {
                return Err(Fail::new("wrong_advertised_list", format!("{:?} -> ciphers {:?} plain {}, expected {:?} plain {}", c.names, got, a.allow_unencrypted, want, want_plain)));
            }
            Ok(1 + want.len() as u64 + 8 * want_plain as u64)
        }
    }
}

fn sides(grid: &[f32]) -> Vec<Side> {
    let mut opts: Vec<Option<f32>> = vec![None];
    opts.extend(grid.iter().map(|g| Some(*g)));
    let mut v = vec![];
    for x in &opts {
        for y in &opts {
            for z in &opts {
                for plain in [false, true] {
                    v.push(Side { speeds: [*x, *y, *z], plain });
                }
            }
        }
    }
    v
}

pub fn run(ctx: &Ctx) {
    let grid: &[f32] = ctx.tier.pick(&[0.0, 1.0, 2.0][..], &[0.0, 1.0, 2.0, 3.0e38][..]);
    let s = sides(grid);
    let n = s.len() as u64;
    sweep_range(
        ctx,
        "pairs",
        n * n,
        SweepOpts { trivial_classes: vec![0], chunk: 8, ..Default::default() },
        |i| Case { a: s[(i / n) as usize].clone(), b: s[(i % n) as usize].clone() },
        run_case,
    );
    // the same order structures at other magnitudes: fractions below 1, equal integer parts, beyond 2^32, denormal/huge
    // (the code may only COMPARE speeds; anything that rounds, truncates or saturates them shows here)
    let scales: [[f32; 3]; 5] = [[0.0, 0.25, 0.75], [0.5, 1.25, 1.75], [4.0e9, 5.0e9, 9.0e9], [1.0e-30, 312.5, 312.50003], [600.0, 3.0e38, 3.4e38]];
    let mut scaled = vec![];
    for sc in &scales {
        let ss: Vec<Side> = sides(&sc[..]).into_iter().filter(|x| !x.plain && x.speeds.iter().filter(|v| v.is_some()).count() >= ctx.tier.pick(3, 2)).collect();
        for (i, a) in ss.iter().enumerate() {
            for b in &ss[i..] {
                scaled.push(Case { a: a.clone(), b: b.clone() });
            }
        }
    }
    sweep_list(ctx, "speed_magnitudes", &scaled, SweepOpts { trivial_classes: vec![0], chunk: 8, ..Default::default() }, run_case);
    let mut edits = vec![];
    let vals: Vec<u8> = if ctx.tier == Tier::Quick { vec![0, 1, 2, 3, 4, 0x3f, 0x40, 0x7f, 0x80, 0xff] } else { (0..=255).collect() };
    for offset in -1..15 {
        for &value in &vals {
            edits.push(EditCase { offset, value });
        }
    }
    sweep_list(ctx, "list_edits", &edits, SweepOpts { trivial_classes: vec![0], ..Default::default() }, run_edit);
    // configuration path: all lists of up to 2 names from the vocabulary (upper, lower, mixed case, aliases, unknown), plus empty
    let vocab = ["AES128", "aes128", "Aes_128_Gcm", "aes256", "AES_256", "chacha", "ChaCha20_Poly1305", "plain", "NONE", "Unencrypted", "des", ""];
    let mut names = vec![NameCase { names: vec![] }];
    for a in vocab {
        names.push(NameCase { names: vec![a.to_string()] });
        for b in vocab {
            names.push(NameCase { names: vec![a.to_string(), b.to_string()] });
        }
    }
    sweep_list(ctx, "algorithm_names", &names, SweepOpts { trivial_classes: vec![0], ..Default::default() }, run_names);
    ctx.assume("speeds are drawn from a finite grid including ties, zero and (thorough) 3e38; NaN is excluded as the statement says");
    ctx.assume("ties between equally fast common ciphers may be broken any way, but the same way for every list order and either initiator");
}

pub fn replay(family: &str, case: &Value) -> Option<CaseResult> {
    if family == "speed_magnitudes" {
        return replay_with::<Case>(case, run_case);
    }
    match family {
        "pairs" => replay_with::<Case>(case, run_case),
        "list_edits" => replay_with::<EditCase>(case, run_edit),
        "algorithm_names" => replay_with::<NameCase>(case, run_names),
        _ => None,
    }
}
