//! C04 No (key, nonce) pair is ever used twice.
//! (a) monitor: the hook's seal log is switched on in complete enumerations of connection lifetimes
//!     (who initiates / both, hash orientation, cipher, every loss pattern over the first 8 rotation datagrams);
//! (b) counter arithmetic: the real increment on every boundary pattern + all 2^24 low-byte values, vs 96-bit +1;
//! (c) 56-bit limit and byte-carry boundaries through real seal/open; (d) fresh start of rotated-in keys.
use super::{c07, common::*, replay_with, Prop};
use crate::{
    crypto::{verif as cv, MessageResult, PeerCrypto},
    mc::{sweep::*, util, CaseResult, Ctx, Fail, Tier},
    util::MsgBuffer,
};
use ring::aead::{LessSafeKey, UnboundKey};
use serde_json::Value;
use std::collections::{HashMap, HashSet};

pub fn prop() -> Prop {
    Prop {
        id: "C04",
        title: "No (key, nonce) pair is ever used twice",
        level: "model_checking",
        rule: "(a) every connection lifetime of the enumerated scenario space (3 ciphers x 2 hash orientations x 3 open modes x all 256 loss patterns over the \
               first 8 rotation datagrams, 10 rotation cycles, traffic in both directions every cycle) runs on real PeerCrypto objects with the seal log on: no \
               (key fingerprint, nonce) pair twice, the two ends' entries under one key differ in the top byte, rotated-in keys are new; (b) the real increment \
               on every pattern prefix++0xff^k and all 2^24 low-byte values x 4 high patterns against 96-bit +1; (c) counters placed at 2^56-3..2^56+3 and at \
               every byte-carry boundary, 7 seals each, through real seal/open; (d) 4 x 64 rotate_key calls: fresh start in the same half. \
               states = distinct (scenario, cycle) observation points, transitions = seals logged",
        run,
        replay,
    }
}

// ---------- (a) monitor over connection lifetimes ----------

/// measured: observation points (state after each cycle of each end) and seals recorded by the hook
pub static POINTS: std::sync::atomic::AtomicU64 = std::sync::atomic::AtomicU64::new(0);
pub static SEALS: std::sync::atomic::AtomicU64 = std::sync::atomic::AtomicU64::new(0);

#[derive(Serialize, Deserialize, Clone, Debug)]
pub struct LifeCase {
    pub cipher: String,
    pub a_wins: bool,
    /// 0 = A dials, 1 = B dials, 2 = both dial, pings cross
    pub open: u8,
    /// bit i set = the i-th rotation datagram emitted in the run is lost
    pub loss_mask: u32,
    pub cycles: u32,
}

fn deliver(rx: &mut PeerCrypto<Blob>, bytes: &[u8]) -> Result<(MessageResult<Blob>, Vec<u8>), String> {
    let mut buf = MsgBuffer::new(SPACE);
    load(&mut buf, bytes);
    match rx.handle_message(&mut buf) {
        Ok(r) => Ok((r, buf.message().to_vec())),
        Err(e) => Err(format!("{}", e)),
    }
}

pub fn run_life(c: &LifeCase) -> CaseResult {
    let (sa, sb) = if c.a_wins { ([0xf0, 0, 0, 1], [0x10, 0, 0, 2]) } else { ([0x10, 0, 0, 1], [0xf0, 0, 0, 2]) };
    cv::core::seal_log_start();
    let (mut a, mut b) = mk_pair(sa, sb, &[&c.cipher], [100.0, 90.0, 80.0]);
    // handshake
    let mut to_a: Vec<Vec<u8>> = vec![];
    let mut to_b: Vec<Vec<u8>> = vec![];
    let mut buf = MsgBuffer::new(SPACE);
    if c.open == 0 || c.open == 2 {
        a.initialize(&mut buf).map_err(|e| Fail::new("setup", format!("{}", e)))?;
        to_b.push(buf.message().to_vec());
    }
    if c.open == 1 || c.open == 2 {
        buf.clear();
        b.initialize(&mut buf).map_err(|e| Fail::new("setup", format!("{}", e)))?;
        to_a.push(buf.message().to_vec());
    }
    let mut done = [false, false];
    let mut rot_index = 0u32;
    let mut guard = 0;
    while !to_a.is_empty() || !to_b.is_empty() {
        guard += 1;
        if guard > 40 {
            return Err(Fail::new("livelock", "handshake does not quiesce"));
        }
        let (is_a, bytes) = if !to_b.is_empty() { (false, to_b.remove(0)) } else { (true, to_a.remove(0)) };
        let rx = if is_a { &mut a } else { &mut b };
        match deliver(rx, &bytes) {
            Ok((r, reply)) => {
                match r {
                    MessageResult::Initialized(_) | MessageResult::InitializedWithReply(_) => done[if is_a { 0 } else { 1 }] = true,
                    _ => {}
                }
                if !reply.is_empty() && !matches!(r, MessageResult::None | MessageResult::Message(_)) {
                    // replies to handshake datagrams; the first rotation datagram counts for the loss mask
                    let is_rotation = reply[0] != 0xff;
                    if is_rotation {
                        let lost = c.loss_mask & (1 << rot_index) != 0;
                        rot_index += 1;
                        if lost {
                            continue;
                        }
                    }
                    if is_a {
                        to_b.push(reply)
                    } else {
                        to_a.push(reply)
                    }
                }
            }
            Err(_) => {}
        }
    }
    if !(done[0] && done[1]) {
        return Err(Fail::new("handshake_incomplete", format!("handshake did not complete on both ends ({:?})", done)));
    }
    // lifetime: cycles with traffic
    let mut points = 0u64;
    for _cycle in 0..c.cycles {
        for is_a in [true, false] {
            for _ in 0..c07::CYCLE {
                let pc = if is_a { &mut a } else { &mut b };
                let mut out = MsgBuffer::new(SPACE);
                if let Ok(MessageResult::Reply) = pc.every_second(&mut out) {
                    let bytes = out.message().to_vec();
                    if bytes[0] == 0xff {
                        continue;
                    }
                    let lost = rot_index < 32 && c.loss_mask & (1 << rot_index) != 0;
                    rot_index += 1;
                    if !lost {
                        let rx = if is_a { &mut b } else { &mut a };
                        let _ = deliver(rx, &bytes);
                    }
                }
            }
            // data traffic both ways
            for a_to_b in [true, false] {
                let (tx, rx) = if a_to_b { (&mut a, &mut b) } else { (&mut b, &mut a) };
                probe(tx, rx, 0, b"traffic").map_err(|e| Fail::new("traffic_lost", format!("payload does not open: {}", e)))?;
            }
            points += 1;
        }
    }
    // the log
    let log = cv::core::seal_log_take();
    POINTS.fetch_add(points, std::sync::atomic::Ordering::Relaxed);
    SEALS.fetch_add(log.len() as u64, std::sync::atomic::Ordering::Relaxed);
    let mut seen: HashSet<([u8; 16], [u8; 12])> = HashSet::new();
    let mut halves: HashMap<[u8; 16], HashSet<u8>> = HashMap::new();
    for (fp, nonce) in &log {
        if !seen.insert((*fp, *nonce)) {
            return Err(Fail::new("nonce_reuse", format!("(key {}, nonce {}) sealed twice", util::hex(fp), util::hex(nonce))));
        }
        if nonce[0] != 0 && nonce[0] != 0x80 {
            return Err(Fail::new("bad_top_byte", format!("nonce {} has top byte outside {{00,80}}", util::hex(nonce))));
        }
        if nonce[1..5] != [0, 0, 0, 0] {
            // legal only if the counter really overflowed 56 bits, which cannot happen in such a short run
            return Err(Fail::new("high_bytes_set", format!("nonce {} has untransmitted bytes set", util::hex(nonce))));
        }
        halves.entry(*fp).or_default().insert(nonce[0]);
    }
    // both ends seal under the handshake key and under rotated keys: their halves must differ. A key used by both
    // ends shows both top bytes; what must never happen is that the two ENDS share a half, which we check on the views.
    let (va, vb) = (a.verif_state().core.unwrap(), b.verif_state().core.unwrap());
    if va.nonce_half == vb.nonce_half {
        return Err(Fail::new("same_half", "both ends draw nonces from the same half"));
    }
    // per end: counters strictly increase per key (log order is seal order; entries of one end = one top byte)
    let mut last: HashMap<([u8; 16], u8), u128> = HashMap::new();
    for (fp, nonce) in &log {
        let v = util::be96_to_u128(nonce);
        if let Some(prev) = last.insert((*fp, nonce[0]), v) {
            if v <= prev {
                return Err(Fail::new("counter_not_increasing", format!("counter under key {} went from {:x} to {:x}", util::hex(fp), prev, v)));
            }
        }
    }
    // a rotated-in key starts a fresh sequence: first counter of each (key, half) must not continue the sequence of
    // another key of the same end (distance to every other key's counters >= 256; random starts have 48 bits)
    let mut firsts: Vec<(([u8; 16], u8), u128)> = vec![];
    let mut seen_keys: HashSet<([u8; 16], u8)> = HashSet::new();
    let mut all: Vec<(([u8; 16], u8), u128)> = vec![];
    for (fp, nonce) in &log {
        let k = (*fp, nonce[0]);
        let v = util::be96_to_u128(nonce);
        if seen_keys.insert(k) {
            firsts.push((k, v));
        }
        all.push((k, v));
    }
    for (k, first) in &firsts {
        for (k2, v2) in &all {
            if k2.0 != k.0 && k2.1 == k.1 && first.abs_diff(*v2) < 256 {
                return Err(Fail::new(
                    "predictable_start",
                    format!("first counter {:x} of key {} continues the sequence of key {} ({:x})", first, util::hex(&k.0), util::hex(&k2.0), v2),
                ));
            }
        }
    }
    Ok(((halves.len() as u64) << 32) | (log.len() as u64) << 8 | points.min(255))
}

// ---------- (b) counter arithmetic ----------

#[derive(Serialize, Deserialize, Clone, Debug)]
pub struct IncCase {
    pub value: Vec<u8>,
}

pub fn run_inc(c: &IncCase) -> CaseResult {
    let mut v = [0u8; 12];
    v.copy_from_slice(&c.value);
    let got = cv::core::nonce_increment(v);
    let want_n = (util::be96_to_u128(&v) + 1) & ((1u128 << 96) - 1);
    let mut want = [0u8; 12];
    for i in 0..12 {
        want[11 - i] = (want_n >> (8 * i)) as u8;
    }
    if got != want {
        return Err(Fail::new("increment_wrong", format!("increment({}) = {}, expected {}", util::hex(&v), util::hex(&got), util::hex(&want)))
            .with("carry_bytes", v.iter().rev().take_while(|b| **b == 0xff).count() as u64));
    }
    Ok(v.iter().rev().take_while(|b| **b == 0xff).count() as u64)
}

// ---------- (c) 56-bit limit and carry boundaries through seal/open ----------

#[derive(Serialize, Deserialize, Clone, Debug)]
pub struct LimitCase {
    pub cipher: u8,
    /// send counter is placed here (12 bytes, top byte = sender half 0x80)
    pub start: Vec<u8>,
}

pub fn run_limit(c: &LimitCase) -> CaseResult {
    let (mut tx, mut rx) = cv::create_dummy_pair(algo_by_id(c.cipher));
    let mut start = [0u8; 12];
    start.copy_from_slice(&c.start);
    cv::core::seal_log_start();
    tx.verif_set_send_nonce(0, start);
    let mut wire_headers: HashSet<Vec<u8>> = HashSet::new();
    let mut opened = 0u64;
    let mut expect = util::be96_to_u128(&start);
    for i in 0..7u8 {
        let payload = vec![i; 9];
        let mut buf = MsgBuffer::new(SPACE);
        load(&mut buf, &payload);
        tx.encrypt(&mut buf);
        expect += 1;
        let wire = buf.message().to_vec();
        let fits = (expect >> 56) & 0xffff_ffff == 0; // bytes 1..4 of the nonce are zero
        load(&mut buf, &wire);
        let res = rx.decrypt(&mut buf);
        match (res.is_ok(), fits) {
            (true, true) => {
                if buf.message() != &payload[..] {
                    return Err(Fail::new("payload_mismatch", "opened to other bytes"));
                }
                if !wire_headers.insert(wire[..8].to_vec()) {
                    return Err(Fail::new("header_reuse", format!("wire header {} used twice under one key and both opened", util::hex(&wire[..8]))));
                }
                opened += 1;
            }
            (false, false) => {}
            (true, false) => {
                return Err(Fail::new("overflow_decryptable", format!("counter {:x} no longer fits 56 bits but the datagram still opens (wrapped onto used values?)", expect)))
            }
            (false, true) => return Err(Fail::new("fitting_counter_rejected", format!("counter {:x} fits but the datagram does not open", expect))),
        }
    }
    let log = cv::core::seal_log_take();
    let mut seen = HashSet::new();
    for (fp, n) in &log {
        if !seen.insert((*fp, *n)) {
            return Err(Fail::new("nonce_reuse", format!("nonce {} sealed twice under one key", util::hex(n))));
        }
    }
    Ok(opened)
}

// ---------- (d) rotate_key: fresh start, same half ----------

#[derive(Serialize, Deserialize, Clone, Debug)]
pub struct RotCase {
    pub cipher: u8,
    pub half: bool,
    pub rotations: u32,
}

pub fn run_rot(c: &RotCase) -> CaseResult {
    let algo = algo_by_id(c.cipher);
    let mk = |b: u8| LessSafeKey::new(UnboundKey::new(algo, &vec![b; algo.key_len()]).unwrap());
    let mut core = cv::CryptoCore::new(mk(0), c.half);
    let mut starts: Vec<(usize, u128)> = vec![];
    let mut fps: HashSet<[u8; 16]> = HashSet::new();
    for id in 1..=c.rotations as u64 {
        // use the current key a few times so that "continues the old sequence" is distinguishable from "fresh"
        for _ in 0..3 {
            let mut buf = MsgBuffer::new(SPACE);
            load(&mut buf, b"x");
            core.encrypt(&mut buf);
        }
        let before = core.verif_state();
        core.rotate_key(mk(id as u8), id, true);
        let after = core.verif_state();
        let slot = (id % 4) as usize;
        if after.current_key != slot {
            return Err(Fail::new("wrong_slot", format!("key id {} went to slot {}", id, after.current_key)));
        }
        let n = after.keys[slot].send_nonce;
        let want_top = if c.half { 0x80 } else { 0 };
        if n[0] != want_top || n[1..6] != [0, 0, 0, 0, 0] {
            return Err(Fail::new("bad_start", format!("rotated-in key starts at {} (half {})", util::hex(&n), c.half)));
        }
        let v = util::be96_to_u128(&n);
        for k in 0..4 {
            let old = util::be96_to_u128(&before.keys[k].send_nonce);
            if v.abs_diff(old) < 256 {
                return Err(Fail::new("predictable_start", format!("key id {} starts at {:x}, within 256 of a previous counter {:x} (slot {})", id, v, old, k)));
            }
        }
        if !fps.insert(after.keys[slot].fingerprint) {
            return Err(Fail::new("key_not_new", "rotated-in key has the fingerprint of an earlier key"));
        }
        if after.keys[slot].seen_nonce != [0; 12] || after.keys[slot].min_nonce != [0; 12] {
            return Err(Fail::new("window_not_reset", "replay window of a rotated-in key is not fresh"));
        }
        starts.push((slot, v));
    }
    Ok(starts.len() as u64)
}

pub fn run(ctx: &Ctx) {
    // (a)
    let mut lives = vec![];
    let ciphers: &[&str] = ctx.tier.pick(&["aes128", "chacha20"][..], &["aes128", "aes256", "chacha20"][..]);
    for cipher in ciphers {
        for a_wins in [true, false] {
            for open in 0..3u8 {
                let masks: Vec<u32> = if ctx.tier == Tier::Quick && *cipher != "aes128" { (0..16).map(|m| m * 17).collect() } else { (0..256).collect() };
                for loss_mask in masks {
                    lives.push(LifeCase { cipher: cipher.to_string(), a_wins, open, loss_mask, cycles: ctx.tier.pick(8, 12) });
                }
            }
        }
    }
    let st = sweep_list(ctx, "lifetimes", &lives, SweepOpts { chunk: 2, ..Default::default() }, run_life);
    // (b) boundary patterns
    let mut incs = vec![];
    for k in 0..=12usize {
        for before in [0x00u8, 0x01, 0x7f, 0x80, 0xfe] {
            for high in [0x00u8, 0x7f, 0x80, 0xff] {
                let mut v = vec![high; 12];
                for i in 0..k {
                    v[11 - i] = 0xff;
                }
                if k < 12 {
                    v[11 - k] = before;
                }
                incs.push(IncCase { value: v });
            }
        }
    }
    sweep_list(ctx, "increment_boundaries", &incs, SweepOpts::default(), run_inc);
    let highs: [[u8; 9]; 4] = [[0; 9], [0x80, 0, 0, 0, 0, 0xff, 0xff, 0xff, 0xff], [0xff; 9], [0, 0, 0, 0, 0, 0, 0x7f, 0xfe, 0xff]];
    sweep_range(
        ctx,
        "increment_low24",
        (1u64 << 24) * 4,
        SweepOpts { chunk: 1 << 16, ..Default::default() },
        |i| {
            let mut v = highs[(i >> 24) as usize].to_vec();
            v.push((i >> 16) as u8);
            v.push((i >> 8) as u8);
            v.push(i as u8);
            IncCase { value: v }
        },
        run_inc,
    );
    // (c)
    let mut limits = vec![];
    for cipher in 1..=3u8 {
        for d in -10i64..=3 {
            // around 2^56
            let v: u128 = (0x80u128 << 88) | ((1u128 << 56) as i128 + d as i128) as u128;
            let mut b = [0u8; 12];
            for i in 0..12 {
                b[11 - i] = (v >> (8 * i)) as u8;
            }
            limits.push(LimitCase { cipher, start: b.to_vec() });
        }
        for k in 1..=7usize {
            for d in [-8i64, -3, -1, 0] {
                // low k bytes all ones (minus d): every byte-carry boundary inside the transmitted part
                let v: u128 = (0x80u128 << 88) | (0x0102_0304_0506_07u128 << 0 & !((1u128 << (8 * k)) - 1)) | (((1u128 << (8 * k)) - 1) as i128 + d as i128) as u128 & ((1u128 << (8 * k)) - 1);
                let mut b = [0u8; 12];
                for i in 0..12 {
                    b[11 - i] = (v >> (8 * i)) as u8;
                }
                limits.push(LimitCase { cipher, start: b.to_vec() });
            }
        }
    }
    sweep_list(ctx, "limit_56bit", &limits, SweepOpts::default(), run_limit);
    // (d)
    let mut rots = vec![];
    for cipher in 1..=3u8 {
        for half in [false, true] {
            for rotations in [1u32, 4, 5, 64] {
                rots.push(RotCase { cipher, half, rotations });
            }
        }
    }
    sweep_list(ctx, "rotate_fresh_start", &rots, SweepOpts::default(), run_rot);
    // model_checking evidence keys: observation points and logged seals of family (a)
    {
        let mut fams = ctx.families.lock().unwrap();
        if let Some(f) = fams.iter_mut().find(|f| f.name == "lifetimes") {
            let _ = &st;
            f.states = POINTS.load(std::sync::atomic::Ordering::Relaxed);
            f.transitions = SEALS.load(std::sync::atomic::Ordering::Relaxed);
        }
    }
    ctx.assume("random 48-bit counter starts: a start within 256 of another key's counters would be reported as 'predictable start' (probability below 1e-5 per run)");
    ctx.assume("the half assignment over ALL two-party handshake schedules is additionally checked in every state of C05's search (opposite halves oracle)");
}

pub fn replay(family: &str, case: &Value) -> Option<CaseResult> {
    match family {
        "lifetimes" => replay_with::<LifeCase>(case, run_life),
        "increment_boundaries" | "increment_low24" => replay_with::<IncCase>(case, run_inc),
        "limit_56bit" => replay_with::<LimitCase>(case, run_limit),
        "rotate_fresh_start" => replay_with::<RotCase>(case, run_rot),
        _ => None,
    }
}
