//! C09 Established connections survive forged and replayed traffic.
//! E4: for every selected datagram captured on the wire of a 2/3-node mesh: re-injection at every offset of the
//! property's menu x claimed source x variant, one fresh execution each, followed by a 400 s probe phase with one
//! packet per second in every direction.
use super::{common::*, netsim::*, replay_with, Prop};
use crate::{
    crypto::verif as cv,
    device::Type,
    mc::{sweep::*, util, CaseResult, Ctx, Fail, Tier},
    payload::Packet,
    types::Mode,
};
use serde_json::Value;

pub fn prop() -> Prop {
    Prop {
        id: "C09",
        title: "Established connections survive forged and replayed traffic",
        level: "fault_enumeration",
        rule: "complete enumeration of the product {scenario: 2 nodes single open / dual open, 3-node mesh} x {selected wire datagrams: every handshake datagram, first rotation \
               and node-info datagrams, data datagrams early/mid/late, later rotation datagrams} x {12 re-injection offsets 0..600 s} x {claimed source: original, \
               another peer, unknown} x {verbatim, counter/key-id edits, 19 single-field edits of handshake datagrams (key hash, part lengths/tags/bodies, end marker, signature length and bytes)}, plus a 3-node mesh with reversed hash order; each case is a fresh real execution: run to the injection time, inject, then 400 s of \
               one packet per second in every direction. Oracle every second: all pairs connected, every probe packet delivered exactly once (one extra copy of the \
               injected datagram's own payload is allowed), and no node opens a new handshake towards a mesh member after the injection. non-trivial = injected datagram is a verbatim or edited GENUINE datagram from a peer's address",
        run,
        replay,
    }
}

pub const OFFSETS: [i64; 12] = [0, 1, 2, 5, 30, 59, 61, 90, 119, 121, 300, 600];
const PROBE_SECS: i64 = 400;
const PRE_SECS: i64 = 130;

#[derive(Serialize, Deserialize, Clone, Debug)]
pub struct Case {
    /// "two_single" | "two_dual" | "three"
    pub scenario: String,
    /// index into the wire capture of the reference run (same structure in every run)
    pub k: usize,
    pub offset: i64,
    /// "original" | "other_peer" | "unknown"
    pub source: String,
    /// "verbatim" | "counter+1" | "counter+1000" | "keyid^4" | "keyid^1" | "flip_last" | "stage" | "trunc-1"
    pub variant: String,
    /// "dest" = original destination, "sender" = reflected to the original sender
    pub target: String,
    /// optional second injection: (capture index, seconds after the first injection), verbatim from its original source
    #[serde(default)]
    pub second: Option<(usize, i64)>,
}

fn build(scenario: &str) -> Net<Packet> {
    let n = if scenario.starts_with("three") { 3 } else { 2 };
    let mut net = Net::<Packet>::new();
    net.capture = Some(vec![]);
    // "three_rev": the order of the nodes' salted hashes is reversed, so that the node that dialled everybody (node 0) also
    // holds the HIGHEST hash - its captured pings then win the concurrent-connect comparison against every handshake object
    net.reverse_salts = scenario == "three_rev";
    for i in 0..n {
        let mut cfg = base_config(Mode::Router, Type::Tun, 0, &[0]);
        cfg.claims = vec![format!("10.0.{}.0/24", i)];
        if scenario == "two_keepalive10" && i == 1 {
            // the dialled node announces itself every 10 s; its peer keeps the default (every 90 s)
            cfg.keepalive = Some(10);
        }
        if scenario == "three_mixed_plain" {
            // nodes 0 and 1 allow unencrypted operation (and a cipher), node 2 does not: 0-1 runs plain, 0-2 and 1-2 sealed
            if i < 2 {
                cfg.crypto.algorithms = vec!["plain".to_string(), "aes256".to_string()];
            }
        } else if scenario.ends_with("_plain") {
            cfg.crypto.algorithms = vec!["plain".to_string()];
        }
        net.add_node(&cfg, false);
    }
    let a = net.addrs.clone();
    match scenario {
        "two_single" | "two_single_plain" | "two_keepalive10" => net.connect(0, a[1]),
        "two_dual" => {
            net.connect(0, a[1]);
            net.connect(1, a[0]);
        }
        _ => {
            net.connect(0, a[1]);
            net.connect(0, a[2]);
        }
    }
    net.deliver_all(256);
    net
}

fn probe_packet(i: usize, j: usize, t: i64) -> Vec<u8> {
    let mut payload = format!("probe {}->{} at {:08}", i, j, t).into_bytes();
    payload.extend_from_slice(&[0xab; 16]);
    ipv4_packet([10, 0, i as u8, 1], [10, 0, j as u8, 1], &payload)
}

/// One second: tick, deliver, then one packet in every direction, deliver, check delivery. `allowed_extra` = payloads that
/// may show up once more (the injected datagram's own content).
fn second(net: &mut Net<Packet>, check: bool, allowed_extra: &mut Vec<Vec<u8>>, sent_log: &mut Vec<Vec<u8>>) -> Result<(), Fail> {
    net.tick();
    // bounded delivery rate (256 datagrams per phase): two replayed pings can start an echo storm between two pending
    // responder objects (observation O1 in DESIGN.md); it must not cost the connection or any payload, which is what is
    // checked below - the storm itself is not a violation of this property
    net.deliver_all(256);
    let n = net.nodes.len();
    let t = net.now;
    let mut expected: Vec<Vec<Vec<u8>>> = vec![vec![]; n];
    for i in 0..n {
        for j in 0..n {
            if i != j {
                let p = probe_packet(i, j, t);
                expected[j].push(p.clone());
                sent_log.push(p.clone());
                let r = net.put_frame(i, p);
                if check {
                    if let Err(e) = r {
                        return Err(Fail::new("send_error", format!("node {} cannot send to node {} at t+{}: {}", i, j, t - START_TIME, e)));
                    }
                }
            }
        }
    }
    net.deliver_all(256);
    for j in 0..n {
        let mut got = net.pop_frames(j);
        if !check {
            continue;
        }
        for e in &expected[j] {
            match got.iter().position(|g| g == e) {
                Some(p) => {
                    got.remove(p);
                }
                None => {
                    return Err(Fail::new("packet_lost", format!("packet {:?} not delivered to node {} (t = start+{})", String::from_utf8_lossy(&e[20..40]), j, t - START_TIME)))
                }
            }
        }
        for g in got {
            match allowed_extra.iter().position(|a| *a == g) {
                Some(p) => {
                    allowed_extra.remove(p);
                }
                None => return Err(Fail::new("unexpected_delivery", format!("node {} delivered an unexpected packet {:?}", j, String::from_utf8_lossy(&g[20.min(g.len())..40.min(g.len())])))),
            }
        }
    }
    if check {
        for i in 0..n {
            for j in 0..n {
                if i != j && !net.connected(i, j) {
                    return Err(Fail::new("disconnected", format!("node {} lost its connection to node {} (t = start+{})", i, j, t - START_TIME)));
                }
            }
        }
    }
    Ok(())
}

/// Kind of a captured datagram: ping/pong/peng (parsed with the trusted key) or sealed.
fn kind_of(data: &[u8]) -> String {
    if data.is_empty() {
        "empty".to_string()
    } else if data.first() == Some(&0xff) {
        let c = mk_crypto(node_id(9), &cfg_with_key(0, &[0], &[]), [1.0, 1.0, 1.0]).unwrap();
        match cv::init_verif::read_from(&data[1..], c.verif_trusted_keys()) {
            Ok((m, _)) => ["?", "ping", "pong", "peng"][cv::init_verif::msg_stage(&m) as usize].to_string(),
            Err(_) => "init?".to_string(),
        }
    } else {
        "sealed".to_string()
    }
}

fn mutate(data: &[u8], variant: &str) -> Vec<u8> {
    let mut d = data.to_vec();
    if d.is_empty() {
        return d; // nodes do emit empty datagrams (handshake "Continue" without reply); nothing to edit
    }
    match variant {
        "verbatim" => {}
        "counter+1" | "counter+1000" => {
            let mut carry = if variant == "counter+1" { 1u32 } else { 1000 };
            for k in (1..8.min(d.len())).rev() {
                let v = d[k] as u32 + carry;
                d[k] = v as u8;
                carry = v >> 8;
            }
        }
        "counter_max" => {
            for k in 1..8.min(d.len()) {
                d[k] = 0xff;
            }
        }
        "keyid^4" => d[0] ^= 4,
        "keyid^1" => d[0] ^= 1,
        "flip_last" => {
            let n = d.len();
            d[n - 1] ^= 1
        }
        "stage" => {
            // stage value of a handshake datagram: marker(1) + salt/hash(8) + tag,len(3) -> byte 12
            if d.len() > 12 {
                d[12] = (d[12] % 3) + 1
            }
        }
        "trunc-1" => {
            d.pop();
        }
        v if v.starts_with("hs:") => return edit_handshake(&d, v),
        _ => panic!("unknown variant"),
    }
    d
}

/// Positions of the parts of a handshake datagram: (tag, offset of the 2-byte length, body offset, body length), and the
/// offset of the signature-length byte. Layout: marker, 4 salt + 4 key hash, parts (tag, len16, body)*, end tag 0, siglen, sig.
fn handshake_parts(d: &[u8]) -> Option<(Vec<(u8, usize, usize, usize)>, usize)> {
    if d.first() != Some(&0xff) || d.len() < 10 {
        return None;
    }
    let mut parts = vec![];
    let mut pos = 9;
    loop {
        let tag = *d.get(pos)?;
        if tag == 0 {
            return Some((parts, pos + 1));
        }
        let len = ((*d.get(pos + 1)? as usize) << 8) | *d.get(pos + 2)? as usize;
        parts.push((tag, pos + 1, pos + 3, len));
        pos += 3 + len;
    }
}

/// Single-field edits of a genuine handshake datagram ("hs:<what>"): what an outsider can do to a captured message.
pub const HS_EDITS: [&str; 19] = [
    "hs:keysalt^1", "hs:keyhash^1", "hs:siglen=0", "hs:siglen=63", "hs:siglen=65", "hs:siglen=255", "hs:sig^first", "hs:sig^last", "hs:part0:len+1", "hs:part1:len+1",
    "hs:part1:body^1", "hs:part2:len=0", "hs:part2:len=ffff", "hs:part2:body^1", "hs:part3:len+5", "hs:part3:body^1", "hs:part3:len=fff8", "hs:drop_end", "hs:part0:tag=9",
];

fn edit_handshake(data: &[u8], variant: &str) -> Vec<u8> {
    let mut d = data.to_vec();
    let (parts, siglen_at) = match handshake_parts(&d) {
        Some(x) => x,
        None => return d,
    };
    let what = &variant[3..];
    let set16 = |d: &mut Vec<u8>, at: usize, v: usize| {
        d[at] = (v >> 8) as u8;
        d[at + 1] = v as u8;
    };
    match what {
        "keysalt^1" => d[1] ^= 1,
        "keyhash^1" => d[5] ^= 1,
        "siglen=0" => d[siglen_at] = 0,
        "siglen=63" => d[siglen_at] = 63,
        "siglen=65" => d[siglen_at] = 65,
        "siglen=255" => d[siglen_at] = 255,
        "sig^first" => {
            if siglen_at + 1 < d.len() {
                d[siglen_at + 1] ^= 0x80
            }
        }
        "sig^last" => {
            let n = d.len();
            d[n - 1] ^= 1
        }
        "drop_end" => {
            d[siglen_at - 1] = 7; // the end marker becomes an unknown part: the parser runs on into the signature
        }
        w if w.starts_with("part") => {
            let idx = (w.as_bytes()[4] - b'0') as usize;
            let (_, len_at, body_at, len) = match parts.get(idx) {
                Some(p) => *p,
                None => return data.to_vec(),
            };
            match &w[6..] {
                "len+1" => set16(&mut d, len_at, len + 1),
                "len+5" => set16(&mut d, len_at, len + 5),
                "len=0" => set16(&mut d, len_at, 0),
                "len=ffff" => set16(&mut d, len_at, 0xffff),
                "len=fff8" => set16(&mut d, len_at, 0xfff8),
                "body^1" => {
                    if len > 0 {
                        d[body_at] ^= 1
                    }
                }
                "tag=9" => d[len_at - 1] = 9,
                _ => panic!("unknown handshake edit"),
            }
        }
        _ => panic!("unknown handshake edit"),
    }
    d
}

/// Reference run: returns (capture index, kind, sent second) of the datagrams selected for re-injection.
pub fn select(scenario: &str) -> Vec<(usize, String, i64)> {
    let mut net = build(scenario);
    let mut extra = vec![];
    let mut log = vec![];
    for _ in 0..PRE_SECS {
        second(&mut net, false, &mut extra, &mut log).ok();
    }
    let cap = net.capture.take().unwrap();
    let mut out = vec![];
    let mut sealed_seen = 0;
    let mut late_rot = 0;
    for (k, w) in cap.iter().enumerate() {
        let kind = kind_of(&w.data);
        let rel = w.sent_at - START_TIME;
        let pick = if kind != "sealed" {
            true
        } else {
            sealed_seen += 1;
            // first sealed datagrams (rotation msg 1, node infos, first data), one mid-run, everything in the rotation second
            let is_rotation_second = rel == 120 || rel == 121;
            if is_rotation_second {
                late_rot += 1;
            }
            sealed_seen <= 6 || (rel == 60 && w.from == net.addrs[0]) || (is_rotation_second && late_rot <= 8) || k + 2 >= cap.len()
        };
        if pick {
            out.push((k, kind, rel));
        }
    }
    out
}

pub fn run_case(c: &Case) -> CaseResult {
    let mut net = build(&c.scenario);
    let mut extra: Vec<Vec<u8>> = vec![];
    let mut log: Vec<Vec<u8>> = vec![];
    // run until the k-th datagram exists, then `offset` seconds more (at least the whole pre-phase is NOT required: the
    // injection time is relative to the datagram's own send time)
    let mut guard = 0;
    while net.capture.as_ref().unwrap().len() <= c.k {
        second(&mut net, true, &mut extra, &mut log)?;
        guard += 1;
        if guard > PRE_SECS + 5 {
            return Err(Fail::new("harness_capture", format!("datagram {} never appeared", c.k)));
        }
    }
    let w = net.capture.as_ref().unwrap()[c.k].clone();
    while net.now < w.sent_at + c.offset {
        second(&mut net, true, &mut extra, &mut log)?;
    }
    // inject
    let kind = kind_of(&w.data);
    let data = mutate(&w.data, &c.variant);
    if c.variant != "verbatim" {
        // an "edit" that the zero-filled receive buffer turns back into the genuine datagram is the verbatim case
        let n = data.len().min(w.data.len());
        if data[..n] == w.data[..n] && w.data[n..].iter().all(|b| *b == 0) {
            return Ok(0);
        }
    }
    let to = if c.target == "sender" { net.node_index(&w.from) } else { net.node_index(&w.to) };
    let to = match to {
        Some(t) => t,
        None => return Ok(0),
    };
    let from = match c.source.as_str() {
        "original" => {
            if c.target == "sender" {
                w.to
            } else {
                w.from
            }
        }
        "other_peer" => match (0..net.nodes.len()).find(|i| net.addrs[*i] != w.from && net.addrs[*i] != w.to) {
            Some(i) => net.addrs[i],
            None => return Ok(0),
        },
        _ => addr_of(999),
    };
    // the statement protects CONNECTED, healthy nodes: an injection before the mesh is complete is outside it
    if !net.fully_meshed() {
        return Ok(0);
    }
    // a replayed data datagram may be delivered once more inside the replay window (C03): its payload is one of the
    // probe packets sent so far - allow exactly one extra copy of any earlier probe packet
    let before_frames: Vec<Vec<u8>> = (0..net.nodes.len()).flat_map(|j| net.pop_frames(j)).collect();
    let _ = before_frames;
    let cap_at_injection = net.capture.as_ref().unwrap().len();
    let r = util::catch(|| net.inject(to, from, data.clone()));
    let tag = |f: Fail| {
        let f = f.with("datagram", kind.clone()).with("variant", c.variant.clone()).with("source", c.source.clone()).with("offset", c.offset).with("target", c.target.clone());
        // the mixed plain/encrypted mesh is told apart in the signature (open finding F17 lives there and nowhere else)
        if c.scenario == "three_mixed_plain" {
            f.with("scenario", c.scenario.clone()).with("second_injection", c.second.is_some())
        } else {
            f
        }
    };
    if let Err(p) = r {
        return Err(tag(Fail::from_panic(&p)));
    }
    let trace = std::env::var("VERIF_TRACE").is_ok();
    if trace {
        eprintln!("injected {} ({} bytes) to node {} claiming {} at start+{}", kind, data.len(), to, from, net.now - START_TIME);
        for i in 0..net.nodes.len() {
            eprintln!("  node {}: {}", i, net.routing_snapshot(i));
        }
        for w in net.queue.iter() {
            eprintln!("  queued {} -> {} {} bytes kind {}", w.from, w.to, w.data.len(), kind_of(&w.data));
        }
    }
    net.deliver_all(512);
    if trace {
        for i in 0..net.nodes.len() {
            eprintln!("  after delivery node {}: {}", i, net.routing_snapshot(i));
        }
    }
    // what the injection itself delivered (at most one earlier probe packet, byte-identical)
    for j in 0..net.nodes.len() {
        let got = net.pop_frames(j);
        // C03 at node level: one packet per second flows on every connection, so two housekeeping ticks after its first
        // delivery a captured data datagram is outside the replay window and must not be delivered again
        if !got.is_empty() && kind == "sealed" && c.variant == "verbatim" && c.offset >= 2 && c.source == "original" && c.target == "dest" {
            return Err(tag(Fail::new("late_replay_delivered", format!("a data datagram replayed {} s after its first delivery was written to the interface again", c.offset))));
        }
        if got.len() > 1 {
            return Err(tag(Fail::new("amplified", format!("one injected datagram caused {} interface writes", got.len()))));
        }
        for g in got {
            if !log.contains(&g) {
                return Err(tag(Fail::new("forged_delivery", "injected datagram delivered bytes that nobody sent")));
            }
        }
    }
    if let Some((k2, gap)) = c.second {
        for _ in 0..gap {
            second(&mut net, true, &mut extra, &mut log).map_err(|f| tag(f).with("phase", "between_injections"))?;
        }
        // k2 = usize::MAX: the most recent data datagram that travelled the same way at least 3 s ago (a late replay while
        // whatever the first injection left behind is still there)
        let w2 = if k2 == usize::MAX {
            let cap = net.capture.as_ref().unwrap();
            cap.iter().rev().find(|x| x.from == w.from && x.to == w.to && x.sent_at <= net.now - 3 && x.data.first() != Some(&0xff) && x.data.len() > 60).cloned()
        } else {
            net.capture.as_ref().unwrap().get(k2).cloned()
        };
        if let Some(w2) = w2 {
            if let Some(to2) = net.node_index(&w2.to) {
                // a second injection under a CLAIMED source uses the same claimed source as the first
                let from2 = if c.source == "original" { w2.from } else { from };
                let r = util::catch(|| net.inject(to2, from2, w2.data.clone()));
                if let Err(p) = r {
                    return Err(tag(Fail::from_panic(&p)).with("phase", "second_injection"));
                }
                net.deliver_all(512);
                for j in 0..net.nodes.len() {
                    for g in net.pop_frames(j) {
                        if !log.contains(&g) {
                            return Err(tag(Fail::new("forged_delivery", "second injected datagram delivered bytes that nobody sent")));
                        }
                        if k2 == usize::MAX {
                            return Err(tag(Fail::new("late_replay_delivered", "a data datagram replayed 3 s or more after its first delivery was written to the interface again (after an earlier handshake replay)")).with("phase", "second_injection"));
                        }
                    }
                }
            }
        }
    }
    let mut scanned = cap_at_injection;
    for _ in 0..PROBE_SECS {
        second(&mut net, true, &mut extra, &mut log).map_err(|f| {
            let since = net.now - (w.sent_at + c.offset);
            tag(f).with("seconds_after_injection_class", if since <= 2 { "0-2" } else if since <= 125 { "3-125" } else { ">125" })
        })?;
        // A connected node never opens a handshake (sends a ping) towards another node of the mesh: a ping on the wire means
        // that somebody dropped a peer and re-dialled it - possibly within one second, which the connectivity test above
        // cannot see. (Byte 12 of a handshake datagram is its stage value; pongs and pengs are answers, not dials.)
        let cap = net.capture.as_ref().unwrap();
        for x in &cap[scanned..] {
            if x.data.first() == Some(&0xff) && x.data.len() > 12 && x.data[12] == 1 && net.node_index(&x.to).is_some() {
                let since = net.now - (w.sent_at + c.offset);
                return Err(tag(Fail::new("redialled", format!("{} s after the injection node {} opened a new handshake towards {} (it had dropped that peer)", since, net.node_index(&x.from).unwrap_or(99), x.to)))
                    .with("seconds_after_injection_class", if since <= 2 { "0-2" } else if since <= 125 { "3-125" } else { ">125" }));
            }
        }
        scanned = cap.len();
    }
    Ok(1 + (kind != "sealed") as u64 * 2 + (c.source == "original") as u64 * 4)
}

pub fn cases(tier: Tier) -> Vec<Case> {
    let mut v = vec![];
    let scenarios: &[&str] = tier.pick(&["two_single", "three", "three_rev", "two_single_plain", "three_mixed_plain", "two_keepalive10"][..], &["two_single", "two_dual", "three", "three_rev", "two_single_plain", "three_mixed_plain", "two_keepalive10"][..]);
    for sc in scenarios {
        let sel = select(sc);
        if std::env::var("VERIF_TRACE_SELECT").is_ok() {
            eprintln!("scenario {}: selected datagrams (index, kind, second) {:?}", sc, sel);
        }
        for (k, kind, _rel) in sel {
            let sources: &[&str] = if sc.starts_with("three") { &["original", "other_peer", "unknown"] } else { &["original", "unknown"] };
            if sc.ends_with("_plain") && (kind == "sealed" || kind == "empty") {
                // on an unencrypted connection data datagrams carry no counter and no tag: replaying them is not prevented
                // by design ("unless both ends explicitly enabled plain"); only handshake datagrams are re-injected there
                continue;
            }
            let variants: Vec<&str> = if kind == "sealed" {
                if tier == Tier::Quick {
                    vec!["verbatim", "counter+1", "counter_max", "keyid^1"]
                } else {
                    vec!["verbatim", "counter+1", "counter+1000", "counter_max", "keyid^1", "flip_last", "trunc-1"]
                }
            } else if tier == Tier::Quick {
                vec!["verbatim", "stage"]
            } else {
                vec!["verbatim", "stage", "flip_last", "trunc-1"]
            };
            if *sc == "two_keepalive10" && (kind == "sealed" || kind == "empty") {
                continue; // the configuration matters for what a replayed handshake datagram leaves behind
            }
            if kind != "sealed" && kind != "empty" && *sc != "three_rev" && *sc != "two_keepalive10" {
                // single-field edits of the handshake datagram (key hash, every part's length and body, signature length and
                // bytes): at two offsets in the quick tier (handshake object still there / gone), at all offsets in the thorough tier
                for &offset in OFFSETS.iter() {
                    if tier == Tier::Quick && ![0, 61].contains(&offset) {
                        continue;
                    }
                    for source in sources {
                        if tier == Tier::Quick && *source == "unknown" && offset != 0 {
                            continue;
                        }
                        for edit in HS_EDITS.iter() {
                            v.push(Case { scenario: sc.to_string(), k, offset, source: source.to_string(), variant: edit.to_string(), target: "dest".into(), second: None });
                        }
                    }
                }
            }
            for &offset in OFFSETS.iter() {
                if tier == Tier::Quick && sc.starts_with("three") && ![0, 2, 61, 121].contains(&offset) {
                    continue;
                }
                if *sc == "three_rev" && (kind == "sealed" || kind == "empty") {
                    continue; // the reversed order matters for handshake datagrams only
                }
                for source in sources {
                    for variant in &variants {
                        // reflection to the original sender: verbatim only; in the quick tier for handshake datagrams only
                        let targets: &[&str] = if *variant == "verbatim" && (tier == Tier::Thorough || kind != "sealed") { &["dest", "sender"] } else { &["dest"] };
                        for target in targets {
                            v.push(Case { scenario: sc.to_string(), k, offset, source: source.to_string(), variant: variant.to_string(), target: target.to_string(), second: None });
                        }
                    }
                }
            }
        }
        // ordered pairs of two verbatim handshake re-injections (state-changing replays chained)
        let hs: Vec<usize> = select(sc).into_iter().filter(|x| x.1 != "sealed" && x.1 != "empty").map(|x| x.0).collect();
        let offs: &[i64] = if tier == Tier::Quick {
            if *sc == "three_mixed_plain" {
                &[61, 121]
            } else {
                &[61]
            }
        } else {
            &[0, 5, 61, 121]
        };
        let gaps: &[i64] = if tier == Tier::Quick { &[0, 61] } else { &[0, 1, 5, 61, 121] };
        for &k1 in &hs {
            for &offset in offs {
                for gap in [3i64, 30, 100] {
                    v.push(Case { scenario: sc.to_string(), k: k1, offset, source: "original".into(), variant: "verbatim".into(), target: "dest".into(), second: Some((usize::MAX, gap)) });
                }
            }
            for &k2 in &hs {
                for &offset in offs {
                    for &gap in gaps {
                        v.push(Case { scenario: sc.to_string(), k: k1, offset, source: "original".into(), variant: "verbatim".into(), target: "dest".into(), second: Some((k2, gap)) });
                        if *sc == "three_mixed_plain" {
                            // both datagrams under the address of ANOTHER peer (a handshake recorded on an unencrypted connection
                            // carries nothing fresh from its responder)
                            v.push(Case { scenario: sc.to_string(), k: k1, offset, source: "other_peer".into(), variant: "verbatim".into(), target: "dest".into(), second: Some((k2, gap)) });
                        }
                    }
                }
            }
        }
    }
    v
}

// ---------- learning (switch) mesh: the routes two nodes have to each other are the addresses they learned ----------

use crate::payload::Frame;

#[derive(Serialize, Deserialize, Clone, Debug)]
pub struct SwCase {
    pub k: usize,
    pub offset: i64,
    pub source: String,
    pub target: String,
}

fn sw_mac(i: usize) -> [u8; 6] {
    [2, 0, 0, 0, 9, i as u8 + 1]
}

fn sw_build() -> Net<Frame> {
    let mut net = Net::<Frame>::new();
    net.capture = Some(vec![]);
    for _ in 0..3 {
        net.add_node(&base_config(Mode::Switch, Type::Tap, 0, &[0]), false);
    }
    let a = net.addrs.clone();
    net.connect(0, a[1]);
    net.connect(0, a[2]);
    net.deliver_all(256);
    net
}

/// One second: tick, deliver, one frame from every node's station to every other node's station. From the third second on
/// every station is known everywhere: a frame reaches exactly its destination node, nothing is flooded.
fn sw_second(net: &mut Net<Frame>, check: bool) -> Result<(), Fail> {
    net.tick();
    net.deliver_all(256);
    let t = net.now;
    let mut expected: Vec<Vec<Vec<u8>>> = vec![vec![]; 3];
    for i in 0..3 {
        for j in 0..3 {
            if i != j {
                let f = eth_frame(sw_mac(j), sw_mac(i), None, format!("sw probe {}->{} at {:08}", i, j, t).as_bytes());
                expected[j].push(f.clone());
                let r = net.put_frame(i, f);
                if check {
                    r.map_err(|e| Fail::new("send_error", format!("node {} cannot send to node {} at t+{}: {}", i, j, t - START_TIME, e)))?;
                }
            }
        }
    }
    net.deliver_all(256);
    for j in 0..3 {
        let mut got = net.pop_frames(j);
        if !check || t < START_TIME + 3 {
            continue;
        }
        for e in &expected[j] {
            match got.iter().position(|g| g == e) {
                Some(p) => {
                    got.remove(p);
                }
                None => return Err(Fail::new("packet_lost", format!("a frame for node {}'s station was not delivered (t = start+{})", j, t - START_TIME))),
            }
        }
        if !got.is_empty() {
            return Err(Fail::new("route_lost", format!("node {} received {} frame(s) addressed to other stations at t = start+{}: somebody forgot where a station lives and flooded", j, got.len(), t - START_TIME)));
        }
    }
    if check {
        for i in 0..3 {
            for j in 0..3 {
                if i != j && !net.connected(i, j) {
                    return Err(Fail::new("disconnected", format!("node {} lost its connection to node {} (t = start+{})", i, j, t - START_TIME)));
                }
            }
        }
    }
    Ok(())
}

pub fn sw_select() -> Vec<(usize, String)> {
    let mut net = sw_build();
    for _ in 0..5 {
        sw_second(&mut net, false).ok();
    }
    let cap = net.capture.take().unwrap();
    cap.iter().enumerate().filter(|(_, w)| w.data.first() == Some(&0xff)).map(|(k, w)| (k, kind_of(&w.data))).collect()
}

pub fn run_sw_case(c: &SwCase) -> CaseResult {
    let mut net = sw_build();
    let mut guard = 0;
    while net.capture.as_ref().unwrap().len() <= c.k {
        sw_second(&mut net, true)?;
        guard += 1;
        if guard > 20 {
            return Err(Fail::new("harness_capture", format!("datagram {} never appeared", c.k)));
        }
    }
    let w = net.capture.as_ref().unwrap()[c.k].clone();
    while net.now < w.sent_at + c.offset {
        sw_second(&mut net, true)?;
    }
    if !net.fully_meshed() {
        return Ok(0);
    }
    let to = if c.target == "sender" { net.node_index(&w.from) } else { net.node_index(&w.to) };
    let to = match to {
        Some(t) => t,
        None => return Ok(0),
    };
    let from = match c.source.as_str() {
        "original" => {
            if c.target == "sender" {
                w.to
            } else {
                w.from
            }
        }
        "other_peer" => match (0..3).find(|i| net.addrs[*i] != w.from && net.addrs[*i] != w.to) {
            Some(i) => net.addrs[i],
            None => return Ok(0),
        },
        _ => addr_of(999),
    };
    let kind = kind_of(&w.data);
    let tag = |f: Fail| f.with("datagram", kind.clone()).with("source", c.source.clone()).with("offset", c.offset).with("target", c.target.clone()).with("mode", "switch");
    util::catch(|| net.inject(to, from, w.data.clone())).map_err(|p| tag(Fail::from_panic(&p)))?;
    net.deliver_all(512);
    for j in 0..3 {
        if !net.pop_frames(j).is_empty() {
            return Err(tag(Fail::new("forged_delivery", "a replayed handshake datagram caused an interface write")));
        }
    }
    for _ in 0..130 {
        sw_second(&mut net, true).map_err(tag)?;
    }
    Ok(1)
}

pub fn run(ctx: &Ctx) {
    let mut sw = vec![];
    for (k, _kind) in sw_select() {
        for offset in ctx.tier.pick(vec![2i64, 61, 121], vec![0, 2, 30, 61, 121, 300]) {
            for source in ["original", "other_peer", "unknown"] {
                for target in ["dest", "sender"] {
                    sw.push(SwCase { k, offset, source: source.to_string(), target: target.to_string() });
                }
            }
        }
    }
    sweep_list(ctx, "switch_reinjection", &sw, SweepOpts { chunk: 1, trivial_classes: vec![0], ..Default::default() }, run_sw_case);
    let list = cases(ctx.tier);
    sweep_list(ctx, "reinjection", &list, SweepOpts { chunk: 1, trivial_classes: vec![0, 1, 3], ..Default::default() }, run_case);
    ctx.assume("the k-th wire datagram has the same role in every execution of a scenario (scheduling is deterministic; only key material differs), so 'datagram k' can be re-captured in each fresh execution");
    ctx.assume("key-id edits with bits 2..7 are covered by C02 (the key-id byte is not authenticated); here key-id edits select another slot");
}

pub fn replay(family: &str, case: &Value) -> Option<CaseResult> {
    if family == "switch_reinjection" {
        return replay_with::<SwCase>(case, run_sw_case);
    }
    replay_with::<Case>(case, run_case)
}
