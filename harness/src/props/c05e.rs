//! C05, node level (E1): explicit-state search over two REAL nodes - every delivery order, duplication and loss of the
//! datagrams in flight, dials by either or both sides, ticks (x1, x61, x121) - with the real dispatch code
//! (pending handshakes vs established peers in GenericCloud::handle_net_message / crypto_housekeep).
//! Oracle in every state: no self-peering; bounded recovery: a reliable suffix of peer timeout + retry horizon ends
//! mutually connected with payload flowing both ways.
use super::{common::*, netsim::*};
use crate::{
    crypto::verif as cv,
    device::Type,
    mc::{
        explore::{self, ExploreOpts, Model},
        util::{self, Renamer},
        CaseResult, Ctx, Fail, Tier,
    },
    payload::Packet,
    types::Mode,
};
use serde_json::Value;
use std::{collections::BTreeMap, time::Duration};

#[derive(Clone, Debug, Serialize, Deserialize, PartialEq)]
pub enum Ev {
    DialA,
    DialB,
    Deliver(usize),
    TickA,
    TickB,
    Dup(usize),
    Drop(usize),
    Tick61,
    Tick121,
}

pub struct Sys {
    net: Net<Packet>,
    dialled: [bool; 2],
    overflow: u32,
}

pub struct M {
    pub reverse_salts: bool,
    pub pool_cap: usize,
}

impl M {
    fn trim(&self, s: &mut Sys) {
        // identical datagrams in flight are one (Dup delivers any of them again); overflow evicts the oldest
        let mut seen: Vec<(std::net::SocketAddr, Vec<u8>)> = vec![];
        let mut keep = std::collections::VecDeque::new();
        for w in s.net.queue.drain(..) {
            if seen.iter().any(|(t, d)| *t == w.to && *d == w.data) {
                continue;
            }
            seen.push((w.to, w.data.clone()));
            keep.push_back(w);
        }
        while keep.len() > self.pool_cap {
            keep.pop_front();
            s.overflow += 1;
        }
        s.net.queue = keep;
    }

    fn no_self(&self, s: &Sys) -> Result<(), Fail> {
        for i in 0..2 {
            let id = s.net.nodes[i].verif_node_id();
            if s.net.nodes[i].verif_peers().iter().any(|p| p.node_id == id) {
                return Err(Fail::new("self_peering", format!("node {} has itself as peer", i)));
            }
        }
        Ok(())
    }
}

/// Canonical text of one PeerCrypto view. Nonce values are replaced by their rank inside their comparison group
/// (same key, same half); fresh values by first-occurrence ids.
fn view_text(v: &cv::PeerCryptoView, r: &mut Renamer, groups: &BTreeMap<([u8; 16], u8), Vec<u128>>) -> String {
    let rank = |fp: &[u8; 16], top: u8, n: &[u8; 12]| -> i64 {
        let x = util::be96_to_u128(n);
        if x < 2 {
            return -1 - x as i64;
        }
        groups.get(&(*fp, top)).and_then(|g| g.iter().position(|y| *y == x)).map(|p| p as i64).unwrap_or(9999)
    };
    let core_text = |c: &cv::core::CoreView, r: &mut Renamer| -> String {
        let own = if c.nonce_half { 0x80 } else { 0x00 };
        let peer = if c.nonce_half { 0x00 } else { 0x80 };
        let mut t = format!("cur={} half={}", c.current_key, c.nonce_half);
        for (slot, k) in c.keys.iter().enumerate() {
            t.push_str(&format!(
                " k({} s={} seen={} nx={} mn={})",
                r.id(&k.fingerprint),
                // the send counter only matters for the slot that seals (a slot is re-created when a key is rotated in)
                if slot == c.current_key { rank(&k.fingerprint, own, &k.send_nonce) } else { -7 },
                rank(&k.fingerprint, peer, &k.seen_nonce),
                rank(&k.fingerprint, peer, &k.next_min_nonce),
                rank(&k.fingerprint, peer, &k.min_nonce)
            ));
        }
        t
    };
    let mut out = String::new();
    if let Some(i) = &v.init {
        out.push_str(&format!(
            "init(h={} st={} ct={} fr={} last={} ecdh={} algo={:?} crypto=[{}])",
            r.id(&i.salted_node_id_hash),
            i.next_stage,
            i.close_time,
            i.failed_retries,
            r.opt(i.last_message.as_deref()),
            r.opt(i.ecdh_public_key.as_deref()),
            i.selected_algorithm,
            i.crypto.as_ref().map(|c| core_text(c, r)).unwrap_or_default()
        ));
    }
    if let Some(c) = &v.core {
        out.push_str(&format!(" core[{}]", core_text(c, r)));
    }
    if let Some(rot) = &v.rotation {
        out.push_str(&format!(
            " rot(id={} to={} conf={} pend={} prop={})",
            rot.message_id,
            rot.timeout,
            rot.confirmed.is_some(),
            rot.pending.as_ref().map(|(k, p)| format!("{},{}", r.id(k), r.id(p))).unwrap_or_default(),
            r.opt(rot.proposed.as_deref())
        ));
    }
    out.push_str(&format!(" un={} rc={}", v.unencrypted, v.rotate_counter));
    out
}

fn collect_groups(views: &[&cv::PeerCryptoView], sealed: &[([u8; 16], u8, u128)]) -> BTreeMap<([u8; 16], u8), Vec<u128>> {
    let mut g: BTreeMap<([u8; 16], u8), Vec<u128>> = BTreeMap::new();
    let mut add = |fp: [u8; 16], top: u8, n: &[u8; 12]| {
        let x = util::be96_to_u128(n);
        if x >= 2 {
            g.entry((fp, top)).or_default().push(x);
        }
    };
    for v in views {
        for c in v.core.iter().chain(v.init.iter().filter_map(|i| i.crypto.as_ref())) {
            let own = if c.nonce_half { 0x80 } else { 0x00 };
            let peer = if c.nonce_half { 0x00 } else { 0x80 };
            for (slot, k) in c.keys.iter().enumerate() {
                if slot == c.current_key {
                    add(k.fingerprint, own, &k.send_nonce);
                }
                add(k.fingerprint, peer, &k.seen_nonce);
                add(k.fingerprint, peer, &k.next_min_nonce);
                add(k.fingerprint, peer, &k.min_nonce);
            }
        }
    }
    for (fp, top, x) in sealed {
        g.entry((*fp, *top)).or_default().push(*x);
    }
    for v in g.values_mut() {
        v.sort();
        v.dedup();
    }
    g
}

impl Model for M {
    type Ev = Ev;
    type Sys = Sys;

    fn init(&self) -> Sys {
        let mut net = Net::<Packet>::new();
        net.reverse_salts = self.reverse_salts;
        for i in 0..2 {
            let mut cfg = base_config(Mode::Router, Type::Tun, 0, &[0]);
            cfg.claims = vec![format!("10.{}.0.0/16", i)];
            net.add_node(&cfg, false);
        }
        Sys { net, dialled: [false, false], overflow: 0 }
    }

    fn enabled(&self, s: &Sys, _hist: &[Ev]) -> Vec<Ev> {
        let mut v = vec![];
        if !s.dialled[0] {
            v.push(Ev::DialA);
        }
        if !s.dialled[1] {
            v.push(Ev::DialB);
        }
        for i in 0..s.net.queue.len() {
            v.push(Ev::Deliver(i));
        }
        v.push(Ev::TickA);
        v.push(Ev::TickB);
        for i in 0..s.net.queue.len() {
            v.push(Ev::Dup(i));
        }
        for i in 0..s.net.queue.len() {
            v.push(Ev::Drop(i));
        }
        if s.dialled[0] || s.dialled[1] {
            v.push(Ev::Tick61);
            v.push(Ev::Tick121);
        }
        v
    }

    fn apply(&self, s: &mut Sys, ev: &Ev) -> Result<(), Fail> {
        match ev {
            Ev::DialA | Ev::DialB => {
                let i = if *ev == Ev::DialA { 0 } else { 1 };
                let to = s.net.addrs[1 - i];
                s.net.configure_peer(i, to);
                s.dialled[i] = true;
            }
            Ev::Deliver(i) => {
                s.net.deliver_at(*i);
            }
            Ev::Dup(i) => {
                s.net.dup_at(*i);
            }
            Ev::Drop(i) => s.net.drop_at(*i),
            Ev::TickA | Ev::TickB => {
                // one node's housekeeping runs (the other node's clock is the same clock: time advances for both, only
                // one housekeeping round is scheduled first - the other follows with its own event)
                let i = if *ev == Ev::TickA { 0 } else { 1 };
                s.net.now += 1;
                s.net.housekeep(i);
            }
            Ev::Tick61 | Ev::Tick121 => {
                let n = if *ev == Ev::Tick61 { 61 } else { 121 };
                for _ in 0..n {
                    s.net.tick();
                    self.trim(s);
                }
            }
        }
        self.trim(s);
        for i in 0..2 {
            s.net.pop_frames(i);
        }
        if let Some((i, e)) = s.net.housekeep_errors.first() {
            return Err(Fail::new("housekeep_error", format!("node {}: {}", i, e)));
        }
        self.no_self(s)
    }

    fn canon(&self, s: &Sys) -> Vec<u8> {
        let mut r = Renamer::default();
        let now = s.net.now;
        // gather views
        let peers: Vec<_> = (0..2).map(|i| s.net.nodes[i].verif_peers()).collect();
        let pend: Vec<_> = (0..2).map(|i| s.net.nodes[i].verif_pending()).collect();
        let mut views: Vec<&cv::PeerCryptoView> = vec![];
        for i in 0..2 {
            for p in &peers[i] {
                views.push(&p.crypto);
            }
            for p in &pend[i] {
                views.push(&p.1);
            }
        }
        // sealed datagrams in flight: key = the sender's key in that slot (peer entry for the destination), counter from the wire
        let mut sealed = vec![];
        let mut flight_meta: Vec<Option<([u8; 16], u8, u128)>> = vec![];
        for w in &s.net.queue {
            let mut meta = None;
            if !w.data.is_empty() && w.data[0] != 0xff && w.data.len() >= 8 {
                if let Some(from) = s.net.node_index(&w.from) {
                    if let Some(p) = peers[from].iter().find(|p| p.addr == w.to) {
                        if let Some(c) = &p.crypto.core {
                            let slot = (w.data[0] % 4) as usize;
                            let top = if c.nonce_half { 0x80 } else { 0x00 };
                            let mut n = [0u8; 12];
                            n[5..].copy_from_slice(&w.data[1..8]);
                            n[0] = top;
                            meta = Some((c.keys[slot].fingerprint, top, util::be96_to_u128(&n)));
                        }
                    }
                }
            }
            if let Some(m) = meta {
                sealed.push(m);
            }
            flight_meta.push(meta);
        }
        let groups = collect_groups(&views, &sealed);
        let mut out = String::new();
        for i in 0..2 {
            out.push_str(&format!("|node{} dialled={} np={}", i, s.dialled[i], (s.net.nodes[i].verif_next_peers() - now).clamp(-1, 400)));
            for p in &peers[i] {
                out.push_str(&format!(" peer({} id={} to={} adv={} {})", p.addr.port(), r.id(&p.node_id), (p.timeout - now).clamp(-1, 400), p.peer_timeout, view_text(&p.crypto, &mut r, &groups)));
            }
            for p in &pend[i] {
                out.push_str(&format!(" pending({} {})", p.0.port(), view_text(&p.1, &mut r, &groups)));
            }
            for e in s.net.nodes[i].verif_reconnect() {
                out.push_str(&format!(" rc(tries={} to={} next={})", e.tries, e.timeout, (e.next - now).clamp(-1, 4000)));
            }
            out.push_str(&format!(" claims={}", s.net.nodes[i].verif_table().verif_claims().len()));
        }
        let trusted = mk_crypto(node_id(9), &cfg_with_key(0, &[0], &[]), [1.0, 1.0, 1.0]).expect("crypto");
        for (w, meta) in s.net.queue.iter().zip(flight_meta.iter()) {
            let content = if w.data.first() == Some(&0xff) {
                match cv::init_verif::read_from(&w.data[1..], trusted.verif_trusted_keys()) {
                    Ok((cv::InitMsg::Ping { salted_node_id_hash, ecdh_public_key, .. }, _)) => format!("ping h={} k={}", r.id(&salted_node_id_hash), r.id(ecdh_public_key.bytes())),
                    Ok((cv::InitMsg::Pong { salted_node_id_hash, ecdh_public_key, encrypted_payload, .. }, _)) => {
                        format!("pong h={} k={} p={}", r.id(&salted_node_id_hash), r.id(ecdh_public_key.bytes()), r.id(encrypted_payload.message()))
                    }
                    Ok((cv::InitMsg::Peng { salted_node_id_hash, encrypted_payload }, _)) => format!("peng h={} p={}", r.id(&salted_node_id_hash), r.id(encrypted_payload.message())),
                    Err(_) => "init?".to_string(),
                }
            } else if w.data.is_empty() {
                "empty".to_string()
            } else {
                match meta {
                    Some((fp, top, x)) => format!("sealed slot={} key={} ctr={}", w.data[0], r.id(fp), groups.get(&(*fp, *top)).and_then(|g| g.iter().position(|y| y == x)).map(|p| p as i64).unwrap_or(-9)),
                    None => format!("sealed? slot={}", w.data[0]),
                }
            };
            out.push_str(&format!("|f({}->{} {} c={})", w.from.port(), w.to.port(), content, r.id(&w.data)));
        }
        out.into_bytes()
    }

    fn probe_once_per_state(&self) -> bool {
        true
    }

    fn probe(&self, mut s: Sys, _hist: &[Ev]) -> Result<u64, Fail> {
        if !s.dialled[0] && !s.dialled[1] {
            return Ok(0);
        }
        // reliable suffix with bounded rate: peer timeout + retry horizon + back-off margin
        let mut meshed_for = 0;
        let mut t = 0;
        while t < 300 + 120 + 40 {
            s.net.deliver_all(64);
            s.net.tick();
            t += 1;
            self.no_self(&s)?;
            if s.net.fully_meshed() && s.net.queue.iter().all(|w| w.data.first() != Some(&0xff)) {
                meshed_for += 1;
                if meshed_for >= 3 {
                    break;
                }
            } else {
                meshed_for = 0;
            }
        }
        s.net.deliver_all(256);
        if !s.net.fully_meshed() {
            return Err(Fail::new("no_recovery", format!("after {} reliable seconds the nodes are not mutually connected (0->1: {}, 1->0: {})", t, s.net.connected(0, 1), s.net.connected(1, 0))));
        }
        for (i, j) in [(0usize, 1usize), (1, 0)] {
            for k in 0..2 {
                s.net.pop_frames(k);
            }
            let pkt = ipv4_packet([10, i as u8, 0, 1], [10, j as u8, 0, 1], b"c05 schedule probe");
            s.net.put_frame(i, pkt.clone()).map_err(|e| Fail::new("send_error", format!("{} -> {}: {}", i, j, e)))?;
            s.net.deliver_all(64);
            if s.net.pop_frames(j) != vec![pkt] {
                return Err(Fail::new("payload_lost", format!("mutually connected, but a packet {} -> {} is not delivered (the two ends hold different keys)", i, j)));
            }
        }
        Ok(1 + (t as u64 / 50) + ((s.overflow.min(3) as u64) << 8))
    }
}

pub fn variants(tier: Tier) -> Vec<(String, M, usize)> {
    vec![
        ("node_schedules".to_string(), M { reverse_salts: false, pool_cap: 4 }, tier.pick(5, 6)),
        ("node_schedules_rev".to_string(), M { reverse_salts: true, pool_cap: 4 }, tier.pick(3, 5)),
    ]
}

pub fn run(ctx: &Ctx) {
    for (i, (fam, m, depth)) in variants(ctx.tier).into_iter().enumerate() {
        let res = explore::explore(
            ctx,
            &fam,
            &m,
            ExploreOpts { max_depth: depth, wall_cap: Duration::from_secs(ctx.tier.pick(400, 3000)), state_cap: ctx.tier.pick(300_000, 6_000_000), dedup: true },
        );
        if i == 0 {
            explore::audit_dedup(ctx, &fam, &m, &res, 3, Duration::from_secs(ctx.tier.pick(300, 600)));
        }
    }
}

pub fn replay(family: &str, case: &Value) -> Option<CaseResult> {
    let fam = family.trim_end_matches("-audit");
    let (_, m, _) = variants(Tier::Thorough).into_iter().find(|(f, _, _)| f == fam)?;
    let hist: Vec<Ev> = serde_json::from_value(case["history"].clone()).ok()?;
    Some(explore::replay_history(&m, &hist))
}
