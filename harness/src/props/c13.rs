//! C13 Switch learning is per VLAN and expires; hub and router learn nothing.
//! E1 at node level: explicit-state search over REAL 3-node meshes (switch/tap), alphabet inject(node, frame) /
//! advance(dt around the switch timeout) / drop(node), against a reference learning table keyed by (12-bit VLAN or
//! untagged, MAC) with VLAN 0 = untagged; hub and router variants must learn nothing; E3: all 65536 tag-control values.
use super::{common::*, netsim::*, replay_with, Prop};
use crate::{
    device::Type,
    mc::{
        explore::{self, ExploreOpts, Model},
        sweep::*,
        CaseResult, Ctx, Fail, Tier,
    },
    payload::{Frame, Packet, Protocol},
    types::Mode,
    util::Time,
};
use serde_json::Value;
use std::{collections::BTreeMap, time::Duration};

pub fn prop() -> Prop {
    Prop {
        id: "C13",
        title: "Switch learning is per VLAN and expires; hub and router learn nothing",
        level: "model_checking",
        rule: "explicit-state BFS by history replay over real 3-node switch meshes: alphabet Inject(node, frame) with frames from {2 source MACs} x {2 MACs + broadcast} \
               x tag set {none, vid 0 with PCP 0/7, vid 0x67 with PCP 0/7, vid 1, vid 0xfff}, Advance(1, T-1, T, T+1) with T = switch timeout, Drop(node) (silenced \
               until its peers forgot it), Close(node) (close broadcast, checked before any tick); a 3-injection alphabet variant goes deeper; after every injection the set of nodes whose interface received the frame must equal the reference (learned peer if the \
               (VLAN, MAC) key is known and fresh, else every peer), byte-identical, once, with as many wire datagrams; canonical state = all nodes' learned tables \
               with ages. Hub and router variants: no learned entry ever. Tag normalisation: all 65536 tag-control values. Plus a quiet variant (default peer timeout) and the mode x device matrix. distinct_nontrivial = canonical states",
        run,
        replay,
    }
}

pub const T: Time = 10;
const MACS: [[u8; 6]; 2] = [[2, 0, 0, 0, 0, 0x11], [2, 0, 0, 0, 0, 0x22]];
const BCAST: [u8; 6] = [0xff; 6];

pub fn tags(tier: Tier) -> Vec<Option<u16>> {
    match tier {
        Tier::Quick => vec![None, Some(0x0000), Some(0xe000), Some(0x0067), Some(0xe067)],
        Tier::Thorough => vec![None, Some(0x0000), Some(0xe000), Some(0x1000), Some(0x0001), Some(0x0067), Some(0xe067), Some(0x0fff)],
    }
}

#[derive(Clone, Debug, Serialize, Deserialize, PartialEq)]
pub enum Ev {
    /// node, source mac index, destination index (0,1 = MACs, 2 = broadcast), tag
    Inject(usize, usize, usize, Option<u16>),
    Advance(i64),
    Drop(usize),
    /// the node shuts down: it broadcasts its close message and is never heard of again
    Close(usize),
}

/// reference key: (vlan or None, mac); VLAN 0 counts as untagged
fn key(tag: Option<u16>, mac: [u8; 6]) -> (Option<u16>, [u8; 6]) {
    let vid = tag.map(|t| t & 0x0fff).filter(|v| *v != 0);
    (vid, mac)
}

pub struct Sys {
    net: Net<Frame>,
    /// learned[r][key] = (peer node, time)
    learned: Vec<BTreeMap<(Option<u16>, [u8; 6]), (usize, Time)>>,
    seq: u32,
    /// nodes that shut down (their own state is of no interest any more)
    closed: Vec<bool>,
}

pub struct M {
    pub mode: Mode,
    pub tier: Tier,
    pub n: usize,
    /// all nodes configured with `algorithms: [plain]`
    pub plain: bool,
    /// small alphabet (one station behind node 0 or 1, one sender on node 2, untagged) for deeper schedules: refresh, move, expiry
    pub narrow: bool,
    /// default peer timeout (300 s): the nodes announce themselves every 90 s only, so nothing but the periodic housekeeping
    /// touches the table between two injections (with the 5 s peer timeout of the other variants an announcement arrives
    /// every second); no Drop event (it would take 300 s)
    pub quiet: bool,
}

impl M {
    fn frame(&self, src: usize, dst: usize, tag: Option<u16>, seq: u32) -> Vec<u8> {
        let d = if dst < 2 { MACS[dst] } else { BCAST };
        let mut payload = format!("c13 frame {:06}", seq).into_bytes();
        payload.extend_from_slice(&[0x5a; 8]);
        eth_frame(d, MACS[src], tag, &payload)
    }

    fn second(&self, s: &mut Sys) {
        s.net.tick();
        s.net.deliver_all(512);
        for i in 0..self.n {
            s.net.pop_frames(i);
        }
    }

    /// Reference sweep: forget entries older than T and entries pointing at nodes that are no longer peers.
    fn forget(&self, s: &mut Sys) {
        let now = s.net.now;
        for r in 0..self.n {
            let peers: Vec<usize> = (0..self.n).filter(|j| *j != r && s.net.connected(r, *j)).collect();
            s.learned[r].retain(|_, (p, t)| now <= *t + T && peers.contains(p));
        }
    }
}

impl Model for M {
    type Ev = Ev;
    type Sys = Sys;

    fn init(&self) -> Sys {
        let cfgs: Vec<_> = (0..self.n)
            .map(|_| {
                let mut c = base_config(self.mode, Type::Tap, 0, &[0]);
                c.switch_timeout = T as u32;
                if self.plain {
                    c.crypto.algorithms = vec!["plain".to_string()];
                }
                c.peer_timeout = if self.quiet { 300 } else { 5 }; // 5: shorter than the switch timeout, a peer can leave while what was learned from it is still fresh
                c
            })
            .collect();
        let mut net = Net::<Frame>::mesh(&cfgs, 3);
        assert!(net.fully_meshed(), "mesh set-up failed");
        for i in 0..self.n {
            net.pop_frames(i);
        }
        Sys { net, learned: vec![BTreeMap::new(); self.n], seq: 0, closed: vec![false; self.n] }
    }

    fn enabled(&self, _s: &Sys, hist: &[Ev]) -> Vec<Ev> {
        let mut v = vec![];
        let closed: Vec<usize> = hist.iter().filter_map(|e| if let Ev::Close(n) = e { Some(*n) } else { None }).collect();
        if self.narrow {
            // station MAC0 speaks behind node 0 or node 1 (broadcast); node 2 sends to MAC0
            for (node, src, dst) in [(0, 0, 2), (1, 0, 2), (2, 1, 0)] {
                if !closed.contains(&node) {
                    v.push(Ev::Inject(node, src, dst, None));
                }
            }
        } else {
            for node in 0..self.n {
                if closed.contains(&node) {
                    continue;
                }
                for src in 0..2 {
                    for dst in 0..3 {
                        if dst == src {
                            continue;
                        }
                        for tag in tags(self.tier) {
                            v.push(Ev::Inject(node, src, dst, tag));
                        }
                    }
                }
            }
        }
        for dt in [1, T - 1, T, T + 1] {
            v.push(Ev::Advance(dt));
        }
        if !hist.iter().any(|e| matches!(e, Ev::Drop(_) | Ev::Close(_))) {
            for node in 0..self.n {
                if self.narrow && node == 2 {
                    continue;
                }
                if !self.quiet {
                    v.push(Ev::Drop(node));
                }
                v.push(Ev::Close(node));
            }
        }
        v
    }

    fn apply(&self, s: &mut Sys, ev: &Ev) -> Result<(), Fail> {
        match ev {
            Ev::Inject(node, src, dst, tag) => {
                self.forget(s);
                s.seq += 1;
                let f = self.frame(*src, *dst, *tag, s.seq);
                let kd = key(*tag, if *dst < 2 { MACS[*dst] } else { BCAST });
                let ks = key(*tag, MACS[*src]);
                let peers: Vec<usize> = (0..self.n).filter(|j| j != node && s.net.connected(*node, *j)).collect();
                let learning = self.mode == Mode::Switch || self.mode == Mode::Normal; // normal mode on a tap device = switch
                let expected: Vec<usize> = match s.learned[*node].get(&kd) {
                    Some((p, _)) if learning => vec![*p],
                    _ => peers.clone(),
                };
                s.net.queue.clear();
                s.net.put_frame(*node, f.clone()).map_err(|e| Fail::new("send_error", format!("{}", e)))?;
                let wire: Vec<usize> = s.net.queue.iter().filter_map(|w| s.net.node_index(&w.to)).collect();
                s.net.deliver_all(64);
                // forwarding isolation (C10): nothing is sent because a payload was RECEIVED
                if !s.net.queue.is_empty() {
                    let w = &s.net.queue[0];
                    return Err(Fail::new("relayed", format!("a received frame caused a datagram {} -> {} ({} bytes)", w.from, w.to, w.data.len())).with("mode", format!("{}", self.mode)));
                }
                let mut got = vec![];
                for r in 0..self.n {
                    let frames = s.net.pop_frames(r);
                    for fr in &frames {
                        if fr != &f {
                            return Err(Fail::new("frame_changed", format!("node {} delivered other bytes than were injected", r)));
                        }
                    }
                    if frames.len() > 1 {
                        return Err(Fail::new("duplicate_delivery", format!("node {} delivered the frame {} times", r, frames.len())));
                    }
                    if frames.len() == 1 {
                        got.push(r);
                    }
                }
                let mut w2 = wire.clone();
                w2.sort();
                if got != expected || w2 != expected {
                    let tagged0 = tag.map(|t| t & 0x0fff == 0).unwrap_or(false);
                    return Err(Fail::new(
                        "wrong_receivers",
                        format!("frame from node {} (src MAC {}, dst {}, tag {:?}) was delivered to {:?} (wire {:?}), reference {:?}; reference table of the sender: {:?}", node, src, dst, tag, got, w2, expected, s.learned[*node]),
                    )
                    .with("mode", format!("{}", self.mode))
                    .with("flooded_instead_of_unicast", got.len() > expected.len())
                    .with("tag_is_vlan0", tagged0)
                    .with("tag_has_priority_bits", tag.map(|t| t & 0xf000 != 0).unwrap_or(false)));
                }
                if learning {
                    let now = s.net.now;
                    for r in got {
                        s.learned[r].insert(ks, (*node, now));
                    }
                }
            }
            Ev::Advance(dt) => {
                for _ in 0..*dt {
                    self.second(s);
                }
                self.forget(s);
            }
            Ev::Drop(node) => {
                s.net.silenced[*node] = true;
                for _ in 0..7 {
                    self.second(s);
                }
                for j in 0..self.n {
                    if j != *node && s.net.connected(j, *node) {
                        return Err(Fail::new("silent_peer_kept", format!("node {} still has silent node {} as peer after 7 s (timeout 5)", j, node)));
                    }
                }
                // what was learned from the departed node must be gone NOW although it is still fresh by age
                for j in 0..self.n {
                    if j == *node {
                        continue;
                    }
                    let gone = s.net.addrs[*node];
                    if let Some(e) = s.net.nodes[j].verif_table().verif_cache().iter().find(|e| e.1 == gone && e.2 >= s.net.now) {
                        return Err(Fail::new("learned_from_departed_peer", format!("node {} still maps {} to departed node {} ({} s of freshness left)", j, e.0, node, e.2 - s.net.now)));
                    }
                }
                s.net.silenced[*node] = false;
                s.net.queue.clear();
                for _ in 0..4 {
                    self.second(s);
                }
                // everything learned from, and by, the dropped node is gone (its own peers timed out as well)
                self.forget(s);
                s.learned[*node].clear();
                for r in 0..self.n {
                    s.learned[r].retain(|_, (p, _)| p != node);
                }
            }
            Ev::Close(node) => {
                s.net.queue.clear();
                s.net.with_node(*node, |n| n.verif_shutdown());
                s.net.deliver_all(64);
                s.net.silenced[*node] = true;
                s.closed[*node] = true;
                // NOW (no tick in between): the node is nobody's peer and nothing resolves to it any more
                let gone = s.net.addrs[*node];
                for j in 0..self.n {
                    if j == *node {
                        continue;
                    }
                    if s.net.connected(j, *node) {
                        return Err(Fail::new("closed_peer_kept", format!("node {} still has node {} as peer after its close message", j, node)));
                    }
                    if let Some(e) = s.net.nodes[j].verif_table().verif_cache().iter().find(|e| e.1 == gone) {
                        return Err(Fail::new("learned_from_departed_peer", format!("node {} still maps {} to node {} right after its close message", j, e.0, node)).with("by", "close"));
                    }
                }
                s.learned[*node].clear();
                for r in 0..self.n {
                    s.learned[r].retain(|_, (p, _)| p != node);
                }
            }
        }
        // implementation's learned tables must not contain anything the reference does not know (hub/router: nothing at all)
        for r in 0..self.n {
            let cache = s.net.nodes[r].verif_table().verif_cache();
            if self.mode == Mode::Hub && !cache.is_empty() && !s.closed[r] {
                return Err(Fail::new("learned_in_non_learning_mode", format!("{} mode: node {} learned {:?}", self.mode, r, cache)).with("mode", format!("{}", self.mode)));
            }
        }
        Ok(())
    }

    fn canon(&self, s: &Sys) -> Vec<u8> {
        let mut out = String::new();
        let now = s.net.now;
        for r in 0..self.n {
            if s.closed[r] {
                out.push_str(&format!("|n{}:closed", r));
                continue;
            }
            out.push_str(&format!("|n{}:", r));
            for (a, p, t) in s.net.nodes[r].verif_table().verif_cache() {
                if t >= now {
                    out.push_str(&format!("({},{},{})", a, p.port(), t - now));
                }
            }
            out.push_str(&format!(" ref={:?}", s.learned[r].iter().map(|(k, (p, t))| (k.clone(), *p, now - *t)).filter(|x| x.2 <= T).collect::<Vec<_>>()));
            out.push_str(&format!(" peers={:?}", (0..self.n).filter(|j| *j != r && s.net.connected(r, *j)).collect::<Vec<_>>()));
        }
        out.into_bytes()
    }

    fn probe(&self, s: Sys, _hist: &[Ev]) -> Result<u64, Fail> {
        // state invariant: implementation's fresh cache entries = reference table (same keys, same peers)
        let now = s.net.now;
        let mut class = 0u64;
        for r in 0..self.n {
            if s.closed[r] {
                continue;
            }
            let cache: Vec<_> = s.net.nodes[r].verif_table().verif_cache().into_iter().filter(|x| x.2 >= now).collect();
            let reference: Vec<_> = s.learned[r].iter().filter(|(_, (_, t))| now <= *t + T).collect();
            if self.mode != Mode::Hub && cache.len() != reference.len() {
                return Err(Fail::new(
                    "table_differs",
                    format!("node {}: implementation knows {} fresh learned addresses {:?}, reference {} {:?}", r, cache.len(), cache, reference.len(), reference),
                )
                .with("impl_has_more", cache.len() > reference.len()));
            }
            class = class * 7 + cache.len() as u64;
        }
        Ok(class)
    }
}

// ---------- tag normalisation ----------

#[derive(Serialize, Deserialize, Clone, Debug)]
pub struct TagCase {
    pub tag_control: u16,
}

pub fn run_tag(c: &TagCase) -> CaseResult {
    let payload = b"tag-normalisation";
    let parse = |tag: Option<u16>| Frame::parse(&eth_frame(MACS[0], MACS[1], tag, payload)).map(|(s, d)| (s.data[..s.len as usize].to_vec(), d.data[..d.len as usize].to_vec()));
    let got = parse(Some(c.tag_control)).map_err(|e| Fail::new("tagged_frame_rejected", format!("{}", e)))?;
    let canon = parse(Some(c.tag_control & 0x0fff)).map_err(|e| Fail::new("tagged_frame_rejected", format!("{}", e)))?;
    if got != canon {
        return Err(Fail::new("priority_bits_in_address", format!("tag control {:#06x} yields {:?}, its 12-bit VLAN id alone {:?}", c.tag_control, got, canon)));
    }
    if c.tag_control & 0x0fff == 0 {
        let untagged = parse(None).map_err(|e| Fail::new("untagged_rejected", format!("{}", e)))?;
        if got != untagged {
            return Err(Fail::new("vlan0_not_untagged", format!("tag control {:#06x} (VLAN 0) yields {:?}, untagged frame {:?}", c.tag_control, got, untagged)));
        }
        return Ok(0);
    }
    Ok(1)
}

// ---------- router: received packets teach nothing ----------

#[derive(Serialize, Deserialize, Clone, Debug)]
pub struct RouterCase {
    pub rounds: usize,
}

pub fn run_router(c: &RouterCase) -> CaseResult {
    let cfgs: Vec<_> = (0..3)
        .map(|i| {
            let mut cfg = base_config(Mode::Router, Type::Tun, 0, &[0]);
            cfg.claims = vec![format!("10.{}.0.0/16", i)];
            cfg
        })
        .collect();
    let mut net = Net::<Packet>::mesh(&cfgs, 3);
    for round in 0..c.rounds {
        for i in 0..3usize {
            for j in 0..3usize {
                if i == j {
                    continue;
                }
                // source addresses outside every claim: a learning node would now know where 192.168.i.x lives
                net.put_frame(i, ipv4_packet([192, 168, i as u8, round as u8 + 1], [10, j as u8, 0, 1], b"router-learns-nothing")).map_err(|e| Fail::new("send_error", format!("{}", e)))?;
                net.deliver_all(64);
            }
        }
        for r in 0..3 {
            net.pop_frames(r);
            for (a, _, _) in net.nodes[r].verif_table().verif_cache() {
                if a.data[0] == 192 {
                    return Err(Fail::new("learned_in_non_learning_mode", format!("router node {} learned source address {}", r, a)).with("mode", "router"));
                }
            }
            // and a packet to such a source is dropped, not routed
            let before = net.nodes[r].verif_dropped().2;
            net.queue.clear();
            net.put_frame(r, ipv4_packet([10, r as u8, 0, 1], [192, 168, ((r + 1) % 3) as u8, 1], b"reply")).ok();
            if !net.queue.is_empty() || net.nodes[r].verif_dropped().2 != before + 1 {
                return Err(Fail::new("learned_in_non_learning_mode", "router forwarded a packet towards an address only seen as a source").with("mode", "router"));
            }
        }
        net.run(1);
    }
    Ok(1)
}

pub fn variants(tier: Tier) -> Vec<(String, M, usize)> {
    vec![
        ("learning_switch".to_string(), M { mode: Mode::Switch, tier, n: 3, plain: false, narrow: false, quiet: false }, tier.pick(3, 5)),
        ("learning_switch_station".to_string(), M { mode: Mode::Switch, tier: Tier::Quick, n: 3, plain: false, narrow: true, quiet: false }, tier.pick(6, 10)),
        ("learning_switch_quiet".to_string(), M { mode: Mode::Switch, tier: Tier::Quick, n: 3, plain: false, narrow: true, quiet: true }, tier.pick(5, 7)),
        ("learning_hub".to_string(), M { mode: Mode::Hub, tier: Tier::Quick, n: 3, plain: false, narrow: false, quiet: false }, tier.pick(2, 3)),
        ("learning_switch_plain".to_string(), M { mode: Mode::Switch, tier: Tier::Quick, n: 3, plain: true, narrow: false, quiet: false }, tier.pick(2, 3)),
        ("learning_normal_tap".to_string(), M { mode: Mode::Normal, tier: Tier::Quick, n: 3, plain: false, narrow: false, quiet: false }, tier.pick(2, 3)),
    ]
}

pub fn run(ctx: &Ctx) {
    sweep_range(ctx, "tag_control", 65536, SweepOpts { chunk: 1024, trivial_classes: vec![], ..Default::default() }, |i| TagCase { tag_control: i as u16 }, run_tag);
    for (fam, m, depth) in variants(ctx.tier) {
        explore::explore(
            ctx,
            &fam,
            &m,
            ExploreOpts { max_depth: depth, wall_cap: Duration::from_secs(ctx.tier.pick(400, 2400)), state_cap: ctx.tier.pick(200_000, 3_000_000), dedup: true },
        );
    }
    super::modes::run(ctx);
    sweep_list(ctx, "router_learns_nothing", &[RouterCase { rounds: 3 }], SweepOpts { chunk: 1, ..Default::default() }, run_router);
    ctx.assume("switch timeout 10 s, peer timeout 5 s; every injection happens after the housekeeping sweep of its second, so 'fresh' is exact (no slack needed)");
    ctx.assume("nested tags: the inner tag is payload for the dissector (covered by C19), the outer tag decides the VLAN");
}

pub fn replay(family: &str, case: &Value) -> Option<CaseResult> {
    match family {
        "tag_control" => replay_with::<TagCase>(case, run_tag),
        "mode_matrix" => replay_with::<super::modes::ModeCase>(case, super::modes::run_case),
        "router_learns_nothing" => replay_with::<RouterCase>(case, run_router),
        f => {
            let (_, m, _) = variants(Tier::Thorough).into_iter().find(|(n, _, _)| n == f)?;
            let hist: Vec<Ev> = serde_json::from_value(case["history"].clone()).ok()?;
            Some(explore::replay_history(&m, &hist))
        }
    }
}
