// Generates, from $VERIF_REPO (default /repo):
//  * repo_mods.rs  - `#[path]` module declarations for vpncloud's sources (compiled in place, nothing copied)
//  * main_extract.rs - the text of `fn parse_ip_netmask` cut out of src/main.rs (C20 anchor)
use std::{env, fs, path::Path};

fn main() {
    let repo = env::var("VERIF_REPO").unwrap_or_else(|_| "/repo".to_string());
    let hash = env::var("VERIF_REPO_HASH").unwrap_or_else(|_| "unknown".to_string());
    println!("cargo:rerun-if-env-changed=VERIF_REPO");
    println!("cargo:rerun-if-env-changed=VERIF_REPO_HASH");
    println!("cargo:rerun-if-changed=build.rs");
    println!("cargo:rustc-env=VERIF_REPO={}", repo);
    println!("cargo:rustc-env=VERIF_REPO_HASH={}", hash);
    let out = env::var("OUT_DIR").unwrap();
    let src = format!("{}/src", repo);
    // (macro_use, name, file)
    let mods: &[(bool, &str, &str)] = &[
        (true, "util", "util.rs"),
        (false, "beacon", "beacon.rs"),
        (false, "cloud", "cloud.rs"),
        (false, "config", "config.rs"),
        (false, "crypto", "crypto/mod.rs"),
        (false, "device", "device.rs"),
        (false, "error", "error.rs"),
        (false, "messages", "messages.rs"),
        (false, "net", "net.rs"),
        (false, "oldconfig", "oldconfig.rs"),
        (false, "payload", "payload.rs"),
        (false, "poll", "poll/mod.rs"),
        (false, "port_forwarding", "port_forwarding.rs"),
        (false, "table", "table.rs"),
        (false, "traffic", "traffic.rs"),
        (false, "types", "types.rs"),
    ];
    let mut text = String::new();
    for (mu, name, file) in mods {
        let p = format!("{}/{}", src, file);
        if !Path::new(&p).exists() {
            panic!("machinery error: {} not found", p);
        }
        println!("cargo:rerun-if-changed={}", p);
        if *mu {
            text.push_str("#[macro_use]\n");
        }
        text.push_str(&format!("#[path = \"{}\"]\npub mod {};\n", p, name));
    }
    fs::write(format!("{}/repo_mods.rs", out), text).unwrap();

    // extract parse_ip_netmask from main.rs
    let main_path = format!("{}/main.rs", src);
    println!("cargo:rerun-if-changed={}", main_path);
    let main_src = fs::read_to_string(&main_path).expect("read main.rs");
    let start = main_src.find("fn parse_ip_netmask").expect("machinery error: parse_ip_netmask not found in main.rs");
    let bytes = main_src.as_bytes();
    let mut depth = 0usize;
    let mut end = None;
    let mut i = start;
    while i < bytes.len() {
        match bytes[i] {
            b'{' => depth += 1,
            b'}' => {
                depth -= 1;
                if depth == 0 {
                    end = Some(i + 1);
                    break;
                }
            }
            _ => {}
        }
        i += 1;
    }
    let end = end.expect("machinery error: unbalanced braces in parse_ip_netmask");
    fs::write(format!("{}/main_extract.rs", out), format!("pub {}\n", &main_src[start..end])).unwrap();
}
